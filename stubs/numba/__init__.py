"""Pure-Python stand-in for the tiny part of numba that xgcm.transform uses."""
import numpy as np
__version__ = "0.0.stub"
class _T:
    def __init__(self, dt): self.dt = dt
    def __getitem__(self, item): return self
boolean = _T(np.bool_); float32 = _T(np.float32); float64 = _T(np.float64)
def guvectorize(signatures, layout, **kw):
    ins, outs = layout.replace(" ", "").split("->")
    in_core = [tuple(x for x in a.strip("()").split(",") if x) for a in ins.replace("),(", ")|(").split("|")]
    out_core = tuple(x for x in outs.strip("()").split(",") if x)
    def deco(kernel):
        def wrapped(*args):
            args = [np.asarray(a) for a in args]
            assert len(args) == len(in_core), (len(args), in_core)
            sizes = {}
            loop_shapes = []
            for a, core in zip(args, in_core):
                nc = len(core)
                if a.ndim < nc: raise ValueError("not enough dims")
                for name, s in zip(core, a.shape[a.ndim - nc:]):
                    if sizes.setdefault(name, s) != s: raise ValueError(f"core dim mismatch {name}")
                loop_shapes.append(a.shape[:a.ndim - nc])
            loop = np.broadcast_shapes(*loop_shapes)
            fl = [a for a in args if a.dtype.kind == "f"]
            dt = np.result_type(*fl) if fl else np.float64
            if dt not in (np.float32, np.float64): dt = np.float64
            out = np.empty(loop + tuple(sizes[n] for n in out_core), dtype=dt)
            bargs = [np.broadcast_to(a, loop + a.shape[len(ls):]) for a, ls in zip(args, loop_shapes)]
            for idx in np.ndindex(*loop):
                cols = []
                for a, core in zip(bargs, in_core):
                    c = a[idx]
                    if len(core) == 0: c = c[()]
                    else: c = np.array(c, dtype=dt if c.dtype.kind == "f" else c.dtype)
                    cols.append(c)
                kernel(*cols, out[idx])
            return out
        wrapped.__name__ = kernel.__name__; wrapped.py_func = kernel
        return wrapped
    return deco
