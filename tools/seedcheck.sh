#!/bin/sh
# tools/seedcheck.sh <seed-dir-name> <check ids...> : apply /verif/seeded/<name>/patch.diff to /repo, run the checks (quick), undo.
cd "$(dirname "$0")/.."
NAME="$1"; shift
P="seeded/$NAME/patch.diff"
git -C /repo diff --quiet || { echo "repo not clean"; exit 2; }
git -C /repo apply "$PWD/$P" || { echo "patch does not apply"; exit 2; }
for c in "$@"; do
  out=$(./check $c ${TIER:-quick} 2>&1); rc=$?
  echo "$NAME $c rc=$rc $(echo "$out" | grep -E "^(violation|pinned|regression)" | head -1) $(echo "$out" | grep '^VIOLATION' | head -1)"
done
git -C /repo checkout -- .
