#!/bin/sh
# tools/seedcheck.sh <seed-dir-name> <check ids...>
# default: apply /verif/seeded/<name>/patch.diff to /repo, run the checks (quick), undo straight afterwards.
# SEED_WORKTREE=<dir>: run against a scratch worktree that has the patch applied instead (XGCM_REPO), leaving /repo alone
#                      (used while long background runs read /repo).
cd "$(dirname "$0")/.."
NAME="$1"; shift
P="seeded/$NAME/patch.diff"
export VERIF_EVIDENCE_DIR="${TMPDIR:-/tmp}/verif-seed-evidence"
if [ -n "$SEED_WORKTREE" ]; then
  export XGCM_REPO="$SEED_WORKTREE"
  git -C "$SEED_WORKTREE" diff --quiet -- xgcm && git -C "$SEED_WORKTREE" apply "$PWD/$P"
else
  git -C /repo diff --quiet || { echo "repo not clean"; exit 2; }
  git -C /repo apply "$PWD/$P" || { echo "patch does not apply"; exit 2; }
fi
for c in "$@"; do
  out=$(./check $c ${TIER:-quick} 2>&1); rc=$?
  echo "$NAME $c rc=$rc $(echo "$out" | grep -E "^(violation|pinned|regression)" | head -1 | cut -c1-110) $(echo "$out" | grep '^VIOLATION' | head -1)"
done
[ -n "$SEED_WORKTREE" ] || git -C /repo checkout -- .
