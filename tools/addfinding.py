#!/usr/bin/env python3
"""addfinding.py <replay.json> <id> <status: open|fixed> <commit-or-'-'> <what...>
Appends an entry to known_findings.json (a maintenance tool; never called by a check)."""
import json, sys, os
HERE = os.path.dirname(os.path.dirname(os.path.abspath(__file__)))
replay, fid, status, commit = sys.argv[1:5]
what = " ".join(sys.argv[5:])
rec = json.load(open(replay))
path = os.path.join(HERE, "known_findings.json")
kf = json.load(open(path))
kf["findings"] = [f for f in kf["findings"] if f["id"] != fid]
entry = {"id": fid, "property": rec["property"], "status": status, "what": what, "reproducer": rec["case"],
         "observed": rec["what"]}
if status == "fixed":
    entry["commit"] = commit
    entry["record"] = f"fixed: property={rec['property']} {commit} {what}"
kf["findings"].append(entry)
json.dump(kf, open(path, "w"), indent=1, sort_keys=True)
print("added", fid)
