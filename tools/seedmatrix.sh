#!/bin/sh
# tools/seedmatrix.sh [seed dirs...] : run every seeded change (default: all) against the quick check of its own property in a
# scratch worktree of /repo's HEAD (never in /repo).  One line per seed: caught / MISSED / patch does not apply.
# Maintenance only.  VERIF_SEED is passed through.
cd "$(dirname "$0")/.."
WT=${SEEDMATRIX_WT:-/tmp/seedmatrix-wt}
git -C /repo worktree remove --force $WT 2>/dev/null
git -C /repo worktree add --detach $WT HEAD -q || exit 2
export VERIF_EVIDENCE_DIR=/tmp/verif-seed-evidence
export VERIF_SHRINK_S=2
[ $# -gt 0 ] || set -- $(ls seeded | grep '^C')
for name in "$@"; do
  prop=$(echo $name | cut -c1-3)
  git -C $WT reset -q --hard
  PATCH="$PWD/seeded/$name/patch.diff"
  if ! git -C $WT apply "$PATCH" 2>/dev/null; then
    # the patch was written against an earlier commit: try with fuzz before giving up
    if ! (cd $WT && patch -p1 -s -F3 --no-backup-if-mismatch < "$PATCH" >/dev/null 2>&1); then
      echo "$name: patch does not apply"; git -C $WT reset -q --hard; git -C $WT clean -fdq; continue
    fi
  fi
  out=$(XGCM_REPO=$WT ./check $prop quick 2>&1); rc=$?
  if [ $rc -eq 1 ]; then echo "$name: caught ($(echo "$out" | grep -E '^(violation|pinned|regression)' | head -1 | cut -c1-90))"; elif [ $rc -eq 0 ]; then echo "$name: MISSED"; else echo "$name: rc=$rc $(echo "$out" | tail -1 | cut -c1-120)"; fi
done
git -C /repo worktree remove --force $WT
