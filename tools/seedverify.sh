#!/bin/sh
# tools/seedverify.sh <worktree> <property id> [suite]
# Confirms a seeded change delivered in a scratch worktree (uncommitted diff + demo_<id>.py):
#   1. the demonstration exits non-zero with the change and 0 without it,
#   2. (with third argument "suite") the pinned test suite, run in the worktree with the change, gives the baseline counts.
# Leaves the change applied in the worktree.  Maintenance only - not used by any registered command.
WT="$1"; ID="$2"
cd "$WT" || exit 2
export PYTHONPATH="$(cd "$(dirname "$0")/.." 2>/dev/null && pwd)/stubs"
[ -d /verif/stubs ] && export PYTHONPATH=/verif/stubs
git diff -- xgcm > /tmp/seedverify-$ID.diff
[ -s /tmp/seedverify-$ID.diff ] || { echo "$ID: no change in $WT"; exit 2; }
/venv/bin/python demo_$ID.py >/tmp/seedverify-$ID.with 2>&1; with=$?
git checkout -- xgcm
/venv/bin/python demo_$ID.py >/tmp/seedverify-$ID.without 2>&1; without=$?
git apply /tmp/seedverify-$ID.diff || { echo "$ID: cannot re-apply"; exit 2; }
echo "$ID demo: with-change rc=$with  without rc=$without  files=$(git diff --stat -- xgcm | tail -1)"
if [ "$3" = "suite" ]; then
  env -u PYTHONPATH /venv/bin/python -m pytest -q -p no:cacheprovider -n 8 2>&1 | tail -1 | sed "s/^/$ID suite: /"
fi
rm -f /tmp/seedverify-$ID.with /tmp/seedverify-$ID.without
