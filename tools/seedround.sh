#!/bin/sh
# tools/seedround.sh <round> <property id> [other checks...] : confirm the demonstration of the seed delivered in
# /tmp/seed<round>/<id>, store patch + demo under seeded/<id>-r<round>/ and run the property's own quick check (and any
# others named) against the scratch worktree.  Maintenance only.
cd "$(dirname "$0")/.."
R="$1"; ID="$2"; shift; shift
WT=/tmp/seed$R/$ID
sh tools/seedverify.sh $WT $ID || exit 2
mkdir -p seeded/$ID-r$R
git -C $WT diff -- xgcm > seeded/$ID-r$R/patch.diff
cp $WT/demo_$ID.py seeded/$ID-r$R/
VERIF_SHRINK_S=5 SEED_WORKTREE=$WT sh tools/seedcheck.sh $ID-r$R $ID "$@"
