#!/usr/bin/env python3
"""Regenerate MANIFEST.json from the table below (kept here so that the manifest is always
consistent with the set of checks that exist)."""
import json
import os

HERE = os.path.dirname(os.path.dirname(os.path.abspath(__file__)))

CHECKS = {
    # id: (technique, level text, level note, design ref)
    "C01": (
        "Hypothesis-generated layouts/data/shifts/rules (+ exhaustive operator x shift x rule x rule-source table) vs independent per-point reference model (bitwise)",
        "Generated-input search (thousands of layouts x shifts x rules x spellings per run) against a reference "
        "model that is derived from the geometry of positions, not from xgcm's pad widths; finds any deviation "
        "reachable with <=3 axes and <=9 cells; cannot prove absence.",
        "Trusted: NumPy take/where/arithmetics in the reference model; float64 data bounded by 1e6.",
        "DESIGN.md 4/C01",
    ),
    "C02": (
        "Hypothesis-generated constructor/call spellings x widths (+ exhaustive position x rule x rule-source x width table) vs rule resolver + index-level padding model",
        "Generated-input search over the product of constructor spellings, call spellings, asymmetric widths and layouts; "
        "oracle is a resolver written from the statement and an index-level padding model; also the re-spelling relation "
        "and a Grid.interp cross-check. Cannot prove absence.",
        "Trusted: NumPy in the model. Corner cells under two different fill values are not compared (order-dependent by nature).",
        "DESIGN.md 4/C02",
    ),
    "C03": (
        "Hypothesis-generated face decompositions with D4 orientations vs geometric reference on the undivided domain",
        "Generated-input search over decompositions (all 8 link kinds, self-links, up to 9 faces) with the link table derived from "
        "geometry; the oracle evaluates the operation on the undivided field through each face's affine index map and never reads "
        "the link table.",
        "Trusted: the geometric model (vfw/model/topology.py). Square faces, N<=4.",
        "DESIGN.md 4/C03",
    ),
    "C04": (
        "Hypothesis-generated non-reversed decompositions vs undivided edge-flux fields and divergence",
        "Generated-input search over lat-lon-cap-like decompositions (same-axis and axis-swapping non-reversed links) and the "
        "single-face grid; oracle = global edge fields with orientation signs, plus divergence and the simple-grid equivalence clause.",
        "Trusted: the geometric model. C-grid components moved to centres only.",
        "DESIGN.md 4/C04",
    ),
    "C05": (
        "Hypothesis-generated random reciprocal link tables vs index-level statement of the link semantics + exchange symmetry",
        "Generated-input search over random reciprocal tables (2-6 faces, all 8 link kinds, self-links), asymmetric widths up to N, "
        "all rules on open edges, scalar and vector inputs; oracle is the property's statement written as index arithmetic; symmetry "
        "is checked from outputs alone.",
        "Trusted: vfw/model/links.py. Corner cells are masked (covered by C12).",
        "DESIGN.md 4/C05",
    ),
    "C06": (
        "Hypothesis-generated chunk compositions x schedulers x operation kinds; differential lazy vs in-memory + counting scheduler",
        "Generated-input search over operation kinds (stencils, cumsum/cumint, integrate/average/derivative, apply_as_grid_ufunc "
        "with parallelized and map_overlap modes, face-connected scalar and vector) x compositions of every dimension into "
        "chunks x schedulers; oracle: zero scheduler invocations while building, compute() equals the in-memory result, "
        "NotImplementedError only in the stated case.",
        "Trusted: dask's schedulers; thread interleavings are not controlled (pure graphs).",
        "DESIGN.md 4/C06",
    ),
    "C07": (
        "Hypothesis-generated column profiles x bins vs exact rational overlap model + conservation / merge / reversal / independence relations",
        "Generated-input search at kernel and Grid.transform level; the weight matrix is extracted with unit vectors and compared "
        "with exact rational overlap fractions; conservation, non-negativity, bin merging, bin-order reversal and column "
        "independence are asserted as relations.",
        "Trusted: fractions-based model; numba replaced by a pure-Python guvectorize stand-in that runs the unmodified kernel source.",
        "DESIGN.md 4/C07",
    ),
    "C08": (
        "Hypothesis-generated profiles x levels x options vs own piecewise-linear interpolant + column independence + naming rules",
        "Generated-input search at kernel and Grid.transform level (mixed directions per column, unsorted levels, end/knot/outside "
        "levels, N-D targets, anonymous/omitted target_data, suffix, dask chunking) against an exact rational interpolant.",
        "Trusted: the interpolant; numba stand-in as for C07; stated forward-error tolerance.",
        "DESIGN.md 4/C08",
    ),
    "C09": (
        "Hypothesis-generated layouts/shifts/rules (+ exhaustive shift x rule x rule-source x mode table) vs geometric running-sum model + inverse/commutation/cumint relations",
        "Generated-input search against a running-sum model stated on coordinates (sum of inputs before the target point) "
        "and four metamorphic relations through the public API.",
        "Trusted: NumPy cumsum in the model; relations that re-associate sums use rtol 1e-9 (exact for integer data).",
        "DESIGN.md 4/C09",
    ),
    "C10": (
        "Hypothesis-generated metric registries vs validity predicate (set of acceptable metrics) + reference integrate/average/derivative formulas",
        "Generated-input search over registries, positions and requested axis sets; because several answers can be correct the "
        "oracle is a validity predicate built from the statement with the reference interpolation of C01; derived operations are "
        "checked against formulas using the metric shown acceptable.",
        "Trusted: reference interpolation (C01 model), xarray broadcasting in the expected-value formulas.",
        "DESIGN.md 4/C10",
    ),
    "C11": (
        "Hypothesis-generated signatures/bindings/option routes with a recording user function vs reference padded-argument model",
        "Generated-input search over user programs: signatures (1-3 inputs, 0-2 outputs), dummy-to-real bindings, widths, rules, "
        "and the route by which each option is supplied (definition, type hints, call, both); the user function records its "
        "arguments, which are compared with the reference padding of the transposed inputs.",
        "Trusted: index-level padding model (C02); all inputs share their broadcast dims.",
        "DESIGN.md 4/C11",
    ),
    "C12": (
        "Hypothesis scenarios executed in worker interpreters with different PYTHONHASHSEED + permuted face-table order; differential across seeds/orders",
        "The harness owns the schedule-like variable (the interpreter's string-hash seed): every generated scenario is executed in "
        "8 (quick) / 16 (thorough) interpreters with distinct seeds and again with the face table re-ordered; all answers must be "
        "identical; mismatches are confirmed in fresh interpreters before being reported.",
        "Trusted: persistent workers are stateless between scenarios (re-validated on mismatch). A k-name set has k! orders; 8 seeds miss a 2-order site with probability 2^-7 per scenario.",
        "DESIGN.md 4/C12",
    ),
    "C13": (
        "Hypothesis scenarios x hostile injective renamings (dictionary harvested from xgcm's string literals); metamorphic canonical-vs-renamed run",
        "Metamorphic relation between two xgcm runs of the same scenario: canonical tokens vs an injective renaming built from single "
        "letters, names embedding position words, case variants, mutual substrings and words harvested from the source (which is "
        "how collisions with internal temporaries are reached).",
        "Trusted: the canonical upper-case tokens are behaviour-neutral names.",
        "DESIGN.md 4/C13",
    ),
    "C14": (
        "Hypothesis-generated layouts rendered as COMODO / SGRID metadata vs the two documented tables + explicit-coords differential",
        "Generated-input search filling every cell of the COMODO table (5 positions x shift signs x n in {1,2,>=3}) and the SGRID "
        "table (4 paddings x 4 topology kinds x 2 spacings) with arbitrary, mutually-substring dimension names; also both "
        "conventions at once and the coords-conflict rejection.",
        "Trusted: the tables as documented in doc/grids.rst.",
        "DESIGN.md 4/C14",
    ),
    "C15": (
        "bounded exhaustive enumeration + all single-character corruptions + Hypothesis, vs own grammar recogniser and canonical form",
        "Exhaustive over the bounded grammar (>=1e5 strings quick, >1e6 thorough) and every single-character corruption of small "
        "signatures, plus Hypothesis beyond the bound; the oracle is a hand-written three-valued recogniser that shares no code "
        "with xgcm's regular expressions.",
        "Trusted: the recogniser's reading of the statement; strings the statement is silent about are skipped and counted.",
        "DESIGN.md 4/C15",
    ),
    "C16": (
        "Hypothesis stateful (rule-based) machine over registration histories vs slot-map model + one-at-a-time replay",
        "Model-based stateful testing: histories of constructor metrics, batched set_metrics calls (with overwrite/refusals) and "
        "lookups; invariant after every step; whole histories shrink as one value and are replayed from JSON without Hypothesis.",
        "Trusted: the slot-map model. Reads grid._metrics (read-only introspection).",
        "DESIGN.md 4/C16",
    ),
    "C17": (
        "exhaustive enumeration (625 tables; all 1- and 2-edit neighbours of base tables) + Hypothesis random tables, vs reciprocity predicate",
        "The 2-face/1-axis family is decided exhaustively; edit neighbourhoods of consistent tables exhaustively; larger tables by "
        "generated search. Oracle: independent predicate from the statement.",
        "Trusted: the predicate. Refusal = any exception.",
        "DESIGN.md 4/C17",
    ),
    "C18": (
        "Hypothesis call sequences on shared argument objects; deep snapshots before/after every call + fresh-object differential",
        "Generated-history search: sequences of up to 3 calls (with repetition, Grid re-construction interleaved) that share the "
        "same argument objects; every object reachable from the arguments, the dataset and the Grid is snapshotted before and "
        "after each call; the k-th outcome is compared with the same call run first on fresh objects.",
        "Trusted: the snapshot covers what the statement lists (values, dims, coords, attrs, name, dict keys and value identities, Grid settings).",
        "DESIGN.md 4/C18",
    ),
    "C19": (
        "Hypothesis-generated coordinate-laden datasets x ops vs coordinate model from the statement",
        "Generated-input search over datasets with 0-D/1-D/N-D coordinates, missing dimension coordinates, (mis)labelled inputs, "
        "all shifts incl. unpadded and cumsum paths, keep_coords; oracle lists which coordinates the result must and must not carry.",
        "Trusted: xarray's own coordinate bookkeeping when building the inputs.",
        "DESIGN.md 4/C19",
    ),
    "C20": (
        "valid calls of the shared corpus x every applicable ill-posing edit; oracle: raises, never returns",
        "Generated-input search over (valid call, single ill-posing edit) pairs from 22 edit classes; the unedited call is run "
        "first and must return, so the edit is the cause of the refusal; any returned object is a violation.",
        "Trusted: the edit classes as read from the statement; boundary/fill edits are only asserted where the call must pad that axis.",
        "DESIGN.md 4/C20",
    ),
}

ALL = [f"C{n:02d}" for n in range(1, 21)]

NOT_BUILT_REASON = "check not built yet in this snapshot of /verif (work in progress; see DESIGN.md section 4 for the planned check)"


def main():
    checks = []
    for pid in ALL:
        if pid not in CHECKS:
            continue
        tech, text, note, ref = CHECKS[pid]
        checks.append(
            {
                "property_id": pid,
                "quick_cmd": f"./check {pid} quick",
                "thorough_cmd": f"./check {pid} thorough",
                "evidence_file": f"evidence/{pid}.json",
                "replay_cmd_template": f"./check {pid} --replay {{path}}",
                "engine": "vfw",
                "level_claimed": {"category": "exploration", "text": text, "design_ref": ref},
                "level_note": note,
                "technique": tech,
            }
        )
    man = {
        "version": 1,
        "setup_cmd": "./check --setup",
        "hooks": {
            "guard": "XGCM_VERIF",
            "enable": "no source hooks are needed: every observation point is public API or a pure function; "
            "checks import xgcm straight from /repo's working tree (PYTHONPATH) in fresh interpreters",
            "baseline_off_cmd": "cd /repo && /venv/bin/python -m pytest -ra -q -p no:cacheprovider --timeout=900 "
            "--continue-on-collection-errors",
            "source_commits": [],
            "add_only": True,
        },
        "engines": [
            {
                "name": "vfw",
                "path": "vfw/runner.py",
                "serves_properties": [c["property_id"] for c in checks],
                "kind_free_text": "Hypothesis 6.168 property-based testing (incl. stateful machines), sharded over 16 "
                "spawned interpreters, explicit reference-model / metamorphic / differential oracles, "
                "bounded exhaustive enumeration where the domain is finite",
            }
        ],
        "checks": checks,
        "not_applicable": [{"property_id": p, "reason": NOT_BUILT_REASON} for p in ALL if p not in CHECKS],
        "notes": "All checks: exit 0 held / 1 violation (VIOLATION line) / 2 harness error. VERIF_SEED selects the "
        "Hypothesis seed (derived per property and shard). Known findings: known_findings.json.",
    }
    with open(os.path.join(HERE, "MANIFEST.json"), "w") as f:
        json.dump(man, f, indent=1)
        f.write("\n")


if __name__ == "__main__":
    main()
