#!/usr/bin/env python3
"""Regenerate MANIFEST.json from the table below (kept here so that the manifest is always
consistent with the set of checks that exist)."""
import json
import os

HERE = os.path.dirname(os.path.dirname(os.path.abspath(__file__)))

CHECKS = {
    # id: (technique, level text, level note, design ref)
    "C01": (
        "Hypothesis-generated layouts/data/shifts/rules vs independent per-point reference model (bitwise)",
        "Generated-input search (thousands of layouts x shifts x rules x spellings per run) against a reference "
        "model that is derived from the geometry of positions, not from xgcm's pad widths; finds any deviation "
        "reachable with <=3 axes and <=9 cells; cannot prove absence.",
        "Trusted: NumPy take/where/arithmetics in the reference model; float64 data bounded by 1e6.",
        "DESIGN.md 4/C01",
    ),
}

ALL = [f"C{n:02d}" for n in range(1, 21)]

NOT_BUILT_REASON = "check not built yet in this snapshot of /verif (work in progress; see DESIGN.md section 4 for the planned check)"


def main():
    checks = []
    for pid in ALL:
        if pid not in CHECKS:
            continue
        tech, text, note, ref = CHECKS[pid]
        checks.append(
            {
                "property_id": pid,
                "quick_cmd": f"./check {pid} quick",
                "thorough_cmd": f"./check {pid} thorough",
                "evidence_file": f"evidence/{pid}.json",
                "replay_cmd_template": f"./check {pid} --replay {{path}}",
                "engine": "vfw",
                "level_claimed": {"category": "exploration", "text": text, "design_ref": ref},
                "level_note": note,
                "technique": tech,
            }
        )
    man = {
        "version": 1,
        "setup_cmd": "./check --setup",
        "hooks": {
            "guard": "XGCM_VERIF",
            "enable": "no source hooks are needed: every observation point is public API or a pure function; "
            "checks import xgcm straight from /repo's working tree (PYTHONPATH) in fresh interpreters",
            "baseline_off_cmd": "cd /repo && /venv/bin/python -m pytest -ra -q -p no:cacheprovider --timeout=900 "
            "--continue-on-collection-errors",
            "source_commits": [],
            "add_only": True,
        },
        "engines": [
            {
                "name": "vfw",
                "path": "vfw/runner.py",
                "serves_properties": [c["property_id"] for c in checks],
                "kind_free_text": "Hypothesis 6.168 property-based testing (incl. stateful machines), sharded over 16 "
                "spawned interpreters, explicit reference-model / metamorphic / differential oracles, "
                "bounded exhaustive enumeration where the domain is finite",
            }
        ],
        "checks": checks,
        "not_applicable": [{"property_id": p, "reason": NOT_BUILT_REASON} for p in ALL if p not in CHECKS],
        "notes": "All checks: exit 0 held / 1 violation (VIOLATION line) / 2 harness error. VERIF_SEED selects the "
        "Hypothesis seed (derived per property and shard). Known findings: known_findings.json.",
    }
    with open(os.path.join(HERE, "MANIFEST.json"), "w") as f:
        json.dump(man, f, indent=1)
        f.write("\n")


if __name__ == "__main__":
    main()
