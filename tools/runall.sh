#!/bin/sh
# tools/runall.sh [tier] : run every registered check once and print one line per check
cd "$(dirname "$0")/.."
TIER="${1:-quick}"
for c in C01 C02 C03 C04 C05 C06 C07 C08 C09 C10 C11 C12 C13 C14 C15 C16 C17 C18 C19 C20; do
  out=$(./check $c $TIER 2>&1); rc=$?
  echo "$c rc=$rc $(echo "$out" | grep "^$c $TIER" | tail -1) $(echo "$out" | grep -c '^KNOWN-FINDING') known $(echo "$out" | grep '^VIOLATION' | head -1)"
done
