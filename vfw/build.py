"""Case description -> xarray objects / xgcm.Grid.  The only framework module (besides the
checks) that touches xgcm."""
import warnings

import numpy as np
import xarray as xr

from .gen import dim_name, pos_len
from .model.stencil import OFF2

warnings.simplefilter("ignore")


def coords_mapping(axes, names=None):
    """{axis: {position: dim}} from a layout (optionally through a name map)."""
    out = {}
    for ax in axes:
        out[ax["name"]] = {p: ax.get("dims", {}).get(p, dim_name(ax["name"], p)) for p in ax["positions"]}
    return out


def make_dataset(axes, extra=(), with_coords=True, facedim=None, nfaces=0):
    coords = {}
    sizes = {}
    for ax in axes:
        for p in ax["positions"]:
            d = ax.get("dims", {}).get(p, dim_name(ax["name"], p))
            L = pos_len(ax["n"], p)
            sizes[d] = L
            if with_coords:
                coords[d] = (d, (2 * np.arange(L) + OFF2[p]) / 2.0)
    for name, size in extra:
        sizes[name] = size
        if with_coords:
            coords[name] = (name, np.arange(size) * 1.0)
    if facedim is not None:
        sizes[facedim] = nfaces
        coords[facedim] = (facedim, np.arange(nfaces))
    if with_coords:
        ds = xr.Dataset(coords=coords)
    else:
        # a dataset that knows the dimensions only through a data variable
        ds = xr.Dataset({"_len_" + d: ((d,), np.zeros(n)) for d, n in sizes.items()})
        if facedim is not None:
            ds = ds.assign_coords({facedim: (facedim, np.arange(nfaces))})
    return ds


def make_grid(ds, axes, **kwargs):
    from xgcm import Grid

    kw = dict(kwargs)
    kw.setdefault("autoparse_metadata", False)
    ds_arg = {}
    for ax in axes:
        if ax.get("default_shifts"):
            ds_arg[ax["name"]] = dict(ax["default_shifts"])
    if ds_arg and "default_shifts" not in kw:
        kw["default_shifts"] = ds_arg
    return Grid(ds, coords=coords_mapping(axes), **kw)


def copy_arg(v, reverse=False):
    """Fresh copy of a (possibly mapping-valued) keyword argument, so that xgcm never shares
    a dict with the case description.  `reverse` lists the entries in the opposite order (the order in
    which a mapping names the axes must never matter)."""
    if isinstance(v, dict):
        return dict(reversed(list(v.items()))) if reverse else dict(v)
    if isinstance(v, list):
        return list(v)
    return v


def retype(v, style):
    """The same argument value in another legal Python type (`style`: 'plain' | 'numpy' | 'odict' | '0d'):
    numbers as numpy scalars / 0-d arrays, words as numpy strings, mappings as OrderedDict, sequences as tuples or arrays."""
    import collections

    if style in (None, "plain"):
        return v
    if isinstance(v, dict):
        items = [(k, retype(x, style)) for k, x in v.items()]
        return collections.OrderedDict(items) if style == "odict" else dict(items)
    if isinstance(v, bool) or v is None:
        return v
    if isinstance(v, (int, float)):
        if style == "numpy":
            return np.int64(v) if isinstance(v, int) else (np.float32(v) if float(np.float32(v)) == v else np.float64(v))
        if style == "0d":
            return np.array(v)
        return v
    if isinstance(v, str):
        return np.str_(v) if style == "numpy" else v
    if isinstance(v, (list, tuple)):
        if style == "numpy" and v and all(isinstance(x, str) for x in v):
            return np.array(list(v))
        return tuple(retype(x, style) for x in v) if style in ("odict", "0d") else type(v)(retype(x, style) for x in v)
    return v


def grid_kwargs(settings):
    kw = {}
    for k in ("periodic", "boundary", "fill_value"):
        if k in settings and settings[k] is not None:
            kw[k] = copy_arg(settings[k])
        elif k == "periodic" and k in settings:
            kw[k] = settings[k]
    return kw


def data_array(values, dims, name=None, layout="C"):
    """layout: 'C' (contiguous), 'F' (Fortran order), 'view' (a transposed, non-contiguous view of an array stored
    in reversed dimension order) or 'neg' (negative strides) - the values and dims are the same in all of them."""
    a = np.asarray(values, dtype=np.float64)
    if layout == "F":
        a = np.asfortranarray(a)
    elif layout == "view" and a.ndim >= 2:
        a = np.ascontiguousarray(a.transpose()).transpose()
    elif layout == "neg":
        # stored back to front along every dimension and viewed through negative strides
        rev = tuple(slice(None, None, -1) for _ in range(a.ndim))
        a = np.ascontiguousarray(a[rev])[rev]
    return xr.DataArray(a, dims=list(dims), name=name)
