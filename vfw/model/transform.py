"""Reference models for the vertical transforms (never imports xgcm).

conservative: exact rational overlap weights.
linear/log  : own piecewise-linear interpolant.
"""
from fractions import Fraction

import numpy as np


def overlap_weights(theta, bins):
    """theta: n+1 cell-bound values; bins: strictly increasing edges (m).  Returns
    (W, free) with W[j][i] Fractions for cell i -> bin j, and `free` = list of
    (i, j1, j2) for homogeneous cells lying exactly on the interior edge between bins j1 and
    j2, where the statement fixes only W[j1][i] + W[j2][i] = 1 (both >= 0)."""
    th = [Fraction(x) for x in theta]
    b = [Fraction(x) for x in bins]
    n, m = len(th) - 1, len(b) - 1
    W = [[Fraction(0)] * n for _ in range(m)]
    free = []
    for i in range(n):
        lo, hi = min(th[i], th[i + 1]), max(th[i], th[i + 1])
        if lo < hi:
            for j in range(m):
                ov = min(hi, b[j + 1]) - max(lo, b[j])
                if ov > 0:
                    W[j][i] = ov / (hi - lo)
        else:
            J = [j for j in range(m) if b[j] <= lo <= b[j + 1]]
            if len(J) == 1:
                W[J[0]][i] = Fraction(1)
            elif len(J) == 2:
                free.append((i, J[0], J[1]))
            elif len(J) > 2:
                raise AssertionError("bins not strictly increasing")
    return W, free


def within_span(theta, bins):
    return min(bins) <= min(theta) and max(theta) <= max(bins)


def to_float(W):
    return np.array([[float(x) for x in row] for row in W], dtype=np.float64)


def linear_interp(theta, phi, level, mask_edges, log=False):
    """Piecewise-linear interpolant of phi against strictly monotonic theta at `level`."""
    pairs = sorted(zip(theta, phi))
    xs = [p[0] for p in pairs]
    ys = [p[1] for p in pairs]
    if log:
        xs = [float(np.log(x)) for x in xs]
        level = float(np.log(level))
    if level < xs[0]:
        return float("nan") if mask_edges else float(ys[0])
    if level > xs[-1]:
        return float("nan") if mask_edges else float(ys[-1])
    for k in range(len(xs) - 1):
        if xs[k] <= level <= xs[k + 1]:
            if ys[k] != ys[k] or ys[k + 1] != ys[k + 1]:
                # a missing value at an end of the segment: the interpolant is undefined there (at a knot itself the
                # value of the knot, if it has one)
                if level == xs[k] and ys[k] == ys[k]:
                    return float(ys[k])
                if level == xs[k + 1] and ys[k + 1] == ys[k + 1]:
                    return float(ys[k + 1])
                return float("nan")
            if log:
                t = (level - xs[k]) / (xs[k + 1] - xs[k])
                return float(ys[k] + t * (ys[k + 1] - ys[k]))
            x0, x1, lv = Fraction(xs[k]), Fraction(xs[k + 1]), Fraction(level)
            y0, y1 = Fraction(ys[k]), Fraction(ys[k + 1])
            return float(y0 + (lv - x0) / (x1 - x0) * (y1 - y0))
    if level == xs[0]:
        return float(ys[0])
    raise AssertionError("level not bracketed")
