"""Geometry of a rectangular domain cut into Kx x Ky square faces of N x N cells, each face
stored with its own orientation (an element of the dihedral group D4).  Everything here is
derived from geometry; nothing uses the slice/flip vocabulary of xgcm's padding code and
nothing imports xgcm.

Conventions: global cell (I, J) = (x index, y index); face f = by*Kx + bx occupies the block
[bx*N, (bx+1)*N) x [by*N, (by+1)*N).  The face array is A_f[j, i] = G[J, I] with
(I, J) = block origin + M_f . (i, j) (M_f acting on cell-centred coordinates).
Local axis 0 = 'X' (index i), local axis 1 = 'Y' (index j).
"""
import numpy as np

AX = "XY"


def _d4():
    out = []
    for perm in ((0, 1), (1, 0)):
        for sx in (1, -1):
            for sy in (1, -1):
                M = np.zeros((2, 2), int)
                M[0, perm[0]] = sx
                M[1, perm[1]] = sy
                out.append(M)
    return out


D4 = _d4()
D4_INV = [np.linalg.inv(M).round().astype(int) for M in D4]
IDENTITY = 0
assert np.array_equal(D4[0], np.eye(2, dtype=int))


def loc2blk(o, N, i, j):
    """local cell (i, j) of a face with orientation index o -> cell (p, q) of its block; the
    local indices may lie outside [0, N) (extended), then so does the result."""
    c = np.array([2 * i - (N - 1), 2 * j - (N - 1)])
    d = D4[o] @ c
    return int((d[0] + (N - 1)) // 2), int((d[1] + (N - 1)) // 2)


def neighbour_block(Kx, Ky, px, py, bx, by, dglob):
    nbx, nby = bx + int(dglob[0]), by + int(dglob[1])
    if px:
        nbx %= Kx
    if py:
        nby %= Ky
    if 0 <= nbx < Kx and 0 <= nby < Ky:
        return nby * Kx + nbx
    return None


def junction(of, oh, a, s):
    """Face with orientation `of` is left through side s of its local axis a into a face with
    orientation `oh`.  Returns (b, side_h, reverse, expressible)."""
    M, Mhinv = D4[of], D4_INV[oh]
    dloc = np.zeros(2, int)
    dloc[a] = 1 if s else -1
    dglob = M @ dloc
    dh = Mhinv @ dglob
    b = int(np.nonzero(dh)[0][0])
    side_h = 0 if dh[b] > 0 else 1  # moving along +b we enter through h's left edge
    rev = s == side_h
    tloc = np.zeros(2, int)
    tloc[1 - a] = 1
    th = Mhinv @ (M @ tloc)  # f's along-edge (+) direction, seen in h's frame
    same = th[1 - b] > 0
    swap = a != b
    # what the three link attributes can express: along-edge direction preserved for
    # same-axis links and swapped+reversed links, mirrored for swapped non-reversed links
    ok = bool(same) if (not swap or rev) else (not bool(same))
    return b, side_h, bool(rev), ok


def build_table(Kx, Ky, px, py, orients, require=None):
    """Link table derived from geometry, or None if some junction is not expressible.
    require: optional predicate on (swap, rev) every link must satisfy."""
    table = {}
    for by in range(Ky):
        for bx in range(Kx):
            f = by * Kx + bx
            links = {}
            for a in (0, 1):
                sides = []
                for s in (0, 1):
                    dloc = np.zeros(2, int)
                    dloc[a] = 1 if s else -1
                    dglob = D4[orients[f]] @ dloc
                    h = neighbour_block(Kx, Ky, px, py, bx, by, dglob)
                    if h is None:
                        sides.append(None)
                        continue
                    b, _, rev, ok = junction(orients[f], orients[h], a, s)
                    if not ok:
                        return None
                    if require is not None and not require(a != b, rev):
                        return None
                    sides.append([h, AX[b], rev])
                links[AX[a]] = sides
            table[f] = links
    return table


def assign_orientations(Kx, Ky, px, py, prefs, require=None):
    """Deterministic backtracking: faces in order, orientations in the (drawn) preference
    order of each face; an assignment is kept iff every junction between assigned faces is
    expressible (and satisfies `require`).  The all-identity assignment always works."""
    nf = Kx * Ky
    orients = [None] * nf

    def consistent(upto):
        # check all junctions among faces < upto
        for by in range(Ky):
            for bx in range(Kx):
                f = by * Kx + bx
                if f >= upto:
                    continue
                for a in (0, 1):
                    for s in (0, 1):
                        dloc = np.zeros(2, int)
                        dloc[a] = 1 if s else -1
                        dglob = D4[orients[f]] @ dloc
                        h = neighbour_block(Kx, Ky, px, py, bx, by, dglob)
                        if h is None or h >= upto:
                            continue
                        b, _, rev, ok = junction(orients[f], orients[h], a, s)
                        if not ok:
                            return False
                        if require is not None and not require(a != b, rev):
                            return False
        return True

    def rec(f):
        if f == nf:
            return True
        for o in prefs[f]:
            orients[f] = o
            if consistent(f + 1) and rec(f + 1):
                return True
        orients[f] = None
        return False

    if not rec(0):
        raise RuntimeError("no orientation assignment (cannot happen: identity works)")
    return orients


def cut(G, Kx, Ky, N, orients):
    """G[..., J, I] -> A[f, ..., j, i]."""
    nf = Kx * Ky
    A = np.zeros((nf,) + G.shape[:-2] + (N, N), dtype=G.dtype)
    for f in range(nf):
        bx, by = f % Kx, f // Kx
        for j in range(N):
            for i in range(N):
                p, q = loc2blk(orients[f], N, i, j)
                A[f, ..., j, i] = G[..., by * N + q, bx * N + p]
    return A


SHIFT_OFF = {"left": (-1, 0), "right": (0, 1), "outer": (-1, 0), "inner": (0, 1)}
SHIFT_LEN = {"left": 0, "right": 0, "outer": 1, "inner": -1}
OPS = {
    "diff": lambda a, b: b - a,
    "interp": lambda a, b: (a + b) / 2.0,
    "min": np.minimum,
    "max": np.maximum,
}


def scalar_reference(G, Kx, Ky, N, orients, px, py, op, axis, to, boundary, fill):
    """op along local `axis` (0/1) from center to `to` on every face, computed on the
    undivided field G[..., J, I].  Returns out[f, ..., j, i] (operated local axis has the
    target length) and the number of operand fetches that crossed a face edge."""
    nf = Kx * Ky
    L = N + SHIFT_LEN[to]
    off = SHIFT_OFF[to]
    NX, NY = Kx * N, Ky * N
    lead = G.shape[:-2]
    shape = [N, N]  # (j, i)
    shape[1 if axis == 0 else 0] = L
    out = np.zeros((nf,) + lead + tuple(shape), dtype=np.float64)
    crossed = [0]

    def val(f, i, j):
        bx, by = f % Kx, f // Kx
        idx = [i, j]
        p, q = loc2blk(orients[f], N, i, j)
        I, J = bx * N + p, by * N + q
        if 0 <= idx[axis] < N:
            return G[..., J, I]
        inside = True
        if px:
            I %= NX
        elif not 0 <= I < NX:
            inside = False
        if py:
            J %= NY
        elif not 0 <= J < NY:
            inside = False
        if inside:
            crossed[0] += 1
            return G[..., J, I]
        # the global cell does not exist: the local rule applies to the local index
        if boundary == "fill":
            return np.full(lead, fill, dtype=np.float64)
        if boundary == "extend":
            idx[axis] = min(max(idx[axis], 0), N - 1)
        elif boundary == "periodic":
            idx[axis] %= N
        else:
            raise ValueError(boundary)
        return val(f, *idx)

    F = OPS[op]
    for f in range(nf):
        for t in range(L):
            for o in range(N):
                k0, k1 = t + off[0], t + off[1]
                if axis == 0:
                    out[f, ..., o, t] = F(val(f, k0, o), val(f, k1, o))
                else:
                    out[f, ..., t, o] = F(val(f, o, k0), val(f, o, k1))
    return out, crossed[0]


# ------------------------------------------------------------------ vectors (C04)
def edge_value(U, V, Kx, Ky, N, orients, f, a, i, j, s):
    """Flux through side s (0 left / 1 right) of local cell (i, j) along local axis a, measured
    in the local + direction.  U[..., J, Iedge], V[..., Jedge, I] are the global edge fields."""
    bx, by = f % Kx, f // Kx
    M = D4[orients[f]]
    p, q = loc2blk(orients[f], N, i, j)
    I, J = bx * N + p, by * N + q
    dloc = np.zeros(2, int)
    dloc[a] = 1
    dg = M @ dloc
    ga = int(np.nonzero(dg)[0][0])
    sg = int(dg[ga])
    gs = s if sg > 0 else 1 - s
    if ga == 0:
        return sg * U[..., J, I + gs]
    return sg * V[..., J + gs, I]


def cut_vector(U, V, Kx, Ky, N, orients):
    nf = Kx * Ky
    lead = U.shape[:-2]
    u = np.zeros((nf,) + lead + (N, N))
    v = np.zeros((nf,) + lead + (N, N))
    for f in range(nf):
        for j in range(N):
            for i in range(N):
                u[f, ..., j, i] = edge_value(U, V, Kx, Ky, N, orients, f, 0, i, j, 0)
                v[f, ..., j, i] = edge_value(U, V, Kx, Ky, N, orients, f, 1, i, j, 0)
    return u, v
