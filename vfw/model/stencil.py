"""Independent reference model of staggered positions, boundary rules, two-point stencils,
padding and running sums.  NumPy only; never imports xgcm.

Geometry: on an axis with n cells, point i of a position lies at coordinate
center i+1/2, left i, right i+1, inner i+1, outer i.
"""
import numpy as np

POSITIONS = ("center", "left", "right", "inner", "outer")
LEN_DELTA = {"center": 0, "left": 0, "right": 0, "inner": -1, "outer": 1}
# coordinate of point i, in half-cells (integers, so no rounding is involved)
OFF2 = {"center": 1, "left": 0, "right": 2, "inner": 2, "outer": 0}
FALLBACK = {
    "center": ("left", "right", "outer", "inner"),
    "left": ("center",),
    "right": ("center",),
    "outer": ("center",),
    "inner": ("center",),
}
VALID_SHIFTS = [("center", p) for p in ("left", "right", "inner", "outer")] + [
    (p, "center") for p in ("left", "right", "inner", "outer")
]
RULES = ("periodic", "fill", "extend")


def length(n, pos):
    return n + LEN_DELTA[pos]


def default_target(positions, frm, default_shifts=None):
    """The documented default shift: explicit default_shifts entry, else the first position
    of the fallback table that the axis has."""
    if default_shifts and frm in default_shifts:
        return default_shifts[frm]
    for cand in FALLBACK[frm]:
        if cand in positions:
            return cand
    return None


def neighbour_indices(n, frm, to):
    """For every target point the input indices of the two adjacent input points
    (may be -1 or L_in: beyond the array ends)."""
    lt = length(n, to)
    x2 = 2 * np.arange(lt) + OFF2[to]  # target coordinates in half cells
    k0 = (x2 - 1 - OFF2[frm]) // 2
    k1 = (x2 + 1 - OFF2[frm]) // 2
    # adjacency is exact: (x2 -/+ 1 - off) is always even for the 8 valid shifts
    assert np.all((x2 - 1 - OFF2[frm]) % 2 == 0)
    return k0.astype(int), k1.astype(int)


def resolve(idx, L, rule):
    out = (idx < 0) | (idx >= L)
    if rule == "periodic":
        return np.mod(idx, L), np.zeros_like(out)
    if rule == "extend":
        return np.clip(idx, 0, L - 1), np.zeros_like(out)
    if rule == "fill":
        return np.clip(idx, 0, L - 1), out
    raise ValueError(rule)


def gather(a, axis, idx, rule, fill):
    L = a.shape[axis]
    ii, m = resolve(np.asarray(idx), L, rule)
    r = np.take(a, ii, axis=axis)
    if m.any():
        sl = [None] * a.ndim
        sl[axis] = slice(None)
        r = np.where(m[tuple(sl)], np.asarray(fill, dtype=r.dtype), r)
    return r


def stencil(a, axis, n, frm, to, op, rule, fill):
    k0, k1 = neighbour_indices(n, frm, to)
    v0 = gather(a, axis, k0, rule, fill)
    v1 = gather(a, axis, k1, rule, fill)
    if op == "diff":
        return v1 - v0
    if op == "interp":
        return (v0 + v1) / 2.0
    if op == "min":
        return np.minimum(v0, v1)
    if op == "max":
        return np.maximum(v0, v1)
    raise ValueError(op)


def needs_boundary(n, frm, to):
    k0, k1 = neighbour_indices(n, frm, to)
    L = length(n, frm)
    return bool((k0 < 0).any() or (k1 >= L).any())


def pad(a, axis, lo, hi, rule, fill):
    L = a.shape[axis]
    return gather(a, axis, np.arange(-lo, L + hi), rule, fill)


def cumsum(a, axis, n, frm, to, rule, fill):
    """out[t] = sum of inputs whose coordinate lies before target point t; if no input lies
    before t = 0 the value comes from the rule applied to the result array."""
    lin = a.shape[axis]
    lt = length(n, to)
    xin = 2 * np.arange(lin) + OFF2[frm]
    xt = 2 * np.arange(lt) + OFF2[to]
    cnt = np.array([int((xin < x).sum()) for x in xt])
    zero = np.zeros_like(np.take(a, [0], axis=axis))
    cs = np.concatenate([zero, np.cumsum(a, axis=axis)], axis=axis)
    out = np.take(cs, cnt, axis=axis)
    lead_from_rule = cnt[0] == 0
    if lead_from_rule:
        out = out.copy()
        sl = [slice(None)] * a.ndim
        sl[axis] = 0
        if rule == "fill":
            lead = fill
        elif rule == "extend":
            lead = np.take(out, 1, axis=axis)
        elif rule == "periodic":
            lead = np.take(out, lt - 1, axis=axis)
        else:
            raise ValueError(rule)
        out[tuple(sl)] = lead
    return out, bool(lead_from_rule)


# ------------------------------------------------------------------ rule resolution (C02)
def grid_level_rule(axes, periodic, boundary, fill_value):
    """Rule and fill value in force per axis from the constructor arguments alone.

    periodic: True | False | list of axis names | {axis: bool}
    boundary / fill_value: None | scalar | mapping naming some or all axes
    """
    rules, fills = {}, {}
    for ax in axes:
        if isinstance(periodic, bool):
            per = periodic
        elif isinstance(periodic, (list, tuple)):
            per = ax in periodic
        elif isinstance(periodic, dict):
            per = bool(periodic.get(ax, False))
        else:
            raise ValueError(periodic)
        b = None
        if isinstance(boundary, dict):
            b = boundary.get(ax)
        elif boundary is not None:
            b = boundary
        rules[ax] = b if b is not None else ("periodic" if per else "fill")
        fv = None
        if isinstance(fill_value, dict):
            fv = fill_value.get(ax)
        elif fill_value is not None:
            fv = fill_value
        fills[ax] = fv if fv is not None else 0.0
    return rules, fills


def rule_in_force(axes, grid_rules, grid_fills, call_boundary, call_fill):
    rules, fills = {}, {}
    for ax in axes:
        b = None
        if isinstance(call_boundary, dict):
            b = call_boundary.get(ax)
        elif call_boundary is not None:
            b = call_boundary
        rules[ax] = b if b is not None else grid_rules[ax]
        fv = None
        if isinstance(call_fill, dict):
            fv = call_fill.get(ax)
        elif call_fill is not None:
            fv = call_fill
        fills[ax] = fv if fv is not None else grid_fills[ax]
    return rules, fills
