"""Face-connection tables: reciprocity predicate and index-level link semantics.
Never imports xgcm.

table: {face: {axis: [left_link, right_link]}}, link = None | (face, axis, reverse)
side s: 0 = left, 1 = right.
"""
import numpy as np


def reciprocal(table, faces, axes):
    """True iff every link names an existing face and axis and is reciprocated: the named
    face's table holds, on the side implied by the reverse flag, a link back to the
    originating face and axis with the same reverse flag."""
    for f, per_axis in table.items():
        for a, sides in per_axis.items():
            for s, link in enumerate(sides):
                if link is None:
                    continue
                g, b, r = link
                if g not in faces or b not in axes or a not in axes:
                    return False
                back_side = s if r else 1 - s
                try:
                    back = table[g][b][back_side]
                except (KeyError, IndexError):
                    return False
                if back is None:
                    return False
                if (back[0], back[1], bool(back[2])) != (f, a, bool(r)):
                    return False
    return True


def halo_source(f, a, s, k, e, N, table):
    """Where halo cell (depth k >= 1 from the edge, along-edge index e) on side s of axis a of
    face f comes from: (g, b, normal_index, along_index, swap, rev) or None if unlinked."""
    link = table.get(f, {}).get(a, (None, None))[s]
    if link is None:
        return None
    g, b, rev = link
    swap = b != a
    linked_edge_is_left = (s == 1) != bool(rev)
    normal = (k - 1) if linked_edge_is_left else (N - k)
    along = (N - 1 - e) if (swap and not rev) else e
    return g, b, normal, along, swap, bool(rev)


def vector_sign(component_axis, a, swap, rev):
    """-1 exactly when the link reverses the component's direction."""
    if component_axis == a and rev:
        return -1
    if component_axis != a and swap and not rev:
        return -1
    return 1
