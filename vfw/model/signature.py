"""Independent recogniser / printer / canonical form for grid-ufunc signatures.
Hand-written scanner, no regular expressions, never imports xgcm.

classify(s) -> ("well-formed", parsed) | ("malformed", reason) | ("unspecified", reason)

well-formed : both sides of '->' are comma-separated lists of parenthesised, comma-separated
              name:position pairs (an argument may hold zero pairs), names are non-empty
              runs of word characters, positions are one of the five words.
malformed   : the classes the property lists (missing side, unbalanced / nested /
              juxtaposed parentheses, unknown position word, empty name or position, doubled
              commas, stray characters).
unspecified : strings about which the statement is silent and that are therefore neither
              required to be accepted nor to be rejected: a trailing comma inside an
              argument, pairs juxtaposed without a comma, an axis name that is itself a
              position word (excluded by xgcm's documentation).
"""
POSITIONS = ("center", "left", "right", "inner", "outer")


def _isword(ch):
    return ch.isalnum() or ch == "_"


def _parse_pairs_strict(body):
    """body: text between one pair of parentheses. -> list of (name, pos) or raises ValueError(reason)."""
    if body == "":
        return []
    pairs = []
    for item in body.split(","):
        if item == "":
            raise ValueError("doubled/leading/trailing comma")
        if item.count(":") != 1:
            raise ValueError("item is not name:position")
        name, pos = item.split(":")
        if name == "":
            raise ValueError("empty name")
        if pos == "":
            raise ValueError("empty position")
        if not all(_isword(c) for c in name):
            raise ValueError("stray character in name")
        if pos not in POSITIONS:
            raise ValueError("unknown position word")
        pairs.append((name, pos))
    return pairs


def _lenient_pairs(body):
    """The superset about which the statement is silent: a sequence of name:position pairs,
    each optionally followed by one comma.  Returns list of pairs or None."""
    i = 0
    pairs = []
    n = len(body)
    while i < n:
        j = i
        while j < n and _isword(body[j]):
            j += 1
        if j == i or j >= n or body[j] != ":":
            return None
        rest = body[j + 1:]
        # the name must be a maximal word run; a position word must follow the colon
        # (a word run may continue straight into the next pair's name: "X:centerY:left")
        cands = [p for p in POSITIONS if rest.startswith(p)]
        if not cands:
            return None
        pos = cands[0]
        pairs.append((body[i:j], pos))
        i = j + 1 + len(pos)
        if i < n and body[i] == ",":
            i += 1
    return pairs


def _split_args(side):
    """side: text of one side of '->'.  -> list of bodies, or raises ValueError."""
    if side == "":
        raise ValueError("missing side")
    bodies = []
    i = 0
    n = len(side)
    while True:
        if i >= n or side[i] != "(":
            raise ValueError("argument must start with '('")
        j = i + 1
        while j < n and side[j] not in "()":
            j += 1
        if j >= n:
            raise ValueError("unbalanced parenthesis")
        if side[j] == "(":
            raise ValueError("nested parenthesis")
        bodies.append(side[i + 1: j])
        i = j + 1
        if i == n:
            return bodies
        if side[i] != ",":
            raise ValueError("juxtaposed arguments or stray character")
        i += 1
        if i == n:
            raise ValueError("trailing comma after argument")


def classify(sig):
    s = sig.replace(" ", "")
    if s.count("->") != 1:
        return ("malformed", "not exactly one '->'")
    lhs, rhs = s.split("->")
    try:
        bodies_in = _split_args(lhs)
        bodies_out = _split_args(rhs)
    except ValueError as e:
        return ("malformed", str(e))
    strict_ok = True
    reason = None
    parsed = []
    for bodies in (bodies_in, bodies_out):
        side = []
        for b in bodies:
            try:
                side.append(_parse_pairs_strict(b))
            except ValueError as e:
                strict_ok = False
                reason = reason or str(e)
                side.append(None)
        parsed.append(side)
    if strict_ok:
        names = [n for side in parsed for arg in side for n, _ in arg]
        if any(n in POSITIONS for n in names):
            return ("unspecified", "axis name equal to a position word")
        return ("well-formed", {"in": parsed[0], "out": parsed[1]})
    # not strictly well-formed: is it in the silent superset?
    for bodies in (bodies_in, bodies_out):
        for b in bodies:
            if b == "":
                continue
            if _lenient_pairs(b) is None:
                return ("malformed", reason)
    return ("unspecified", reason)


def render(parsed):
    def side(args):
        return ",".join("(" + ",".join(f"{n}:{p}" for n, p in arg) + ")" for arg in args)

    return side(parsed["in"]) + "->" + side(parsed["out"])


def canonical(parsed):
    """Names numbered by first appearance (inputs first, then outputs); positions kept."""
    num = {}
    out = []
    for key in ("in", "out"):
        side = []
        for arg in parsed[key]:
            side.append(tuple((num.setdefault(n, len(num)), p) for n, p in arg))
        out.append(tuple(side))
    return tuple(out)


def names_of(parsed):
    seen = []
    for key in ("in", "out"):
        for arg in parsed[key]:
            for n, _ in arg:
                if n not in seen:
                    seen.append(n)
    return seen


def rename(parsed, mapping):
    return {k: [[(mapping.get(n, n), p) for n, p in arg] for arg in parsed[k]] for k in ("in", "out")}
