"""Scenario executor used by C12: started with a chosen PYTHONHASHSEED, reads one JSON request
per line on stdin ({"id", "scenario", "names"}) and answers one JSON line ({"id", "outcomes"}).
`--once` executes a single request and exits (fresh-interpreter validation)."""
import json
import sys
import warnings


def main():
    warnings.simplefilter("ignore")
    from vfw import scenario

    once = "--once" in sys.argv
    for line in sys.stdin:
        line = line.strip()
        if not line:
            continue
        req = json.loads(line)
        try:
            out = scenario.run_scenario(req["scenario"], req.get("names"))
            ans = {"id": req.get("id"), "outcomes": out}
        except Exception as e:  # noqa: BLE001 - harness fault inside the worker
            ans = {"id": req.get("id"), "worker_error": f"{type(e).__name__}: {e}"}
        sys.stdout.write(json.dumps(ans, sort_keys=True) + "\n")
        sys.stdout.flush()
        if once:
            break


if __name__ == "__main__":
    main()
