"""Check runner: tiers, seeding, sharding over processes, evidence, replay, known findings.

usage:  python -m vfw.runner Cxx [quick|thorough] [--replay FILE] [--examples N] [--shards K]
exit:   0 property held on everything explored (KNOWN-FINDING lines possible)
        1 violation (stdout line "VIOLATION property=Cxx replay=<path>")
        2 harness error
"""
import argparse
import hashlib
import collections
import importlib
import json
import multiprocessing as mp
import os
import sys
import time
import traceback
import warnings

from .core import (
    HERE,
    Ctx,
    HarnessError,
    Violation,
    canon,
    digest,
    fixed_findings,
    jsonable,
    open_findings,
)

MAX_SAMPLES_PER_CLASS = 2
HISTORY_KEPT = 300
MAX_SAMPLES = 10


def derive_seed(seed, prop, shard):
    h = hashlib.sha256(f"{seed}/{prop}/{shard}".encode()).digest()
    return int.from_bytes(h[:8], "big")


def _quiet():
    warnings.simplefilter("ignore")
    os.environ.setdefault("PYTHONWARNINGS", "ignore")


def _empty_result():
    return {
        "evaluations": 0,
        "nontrivial": [],
        "classes": {},
        "samples": [],
        "failure": None,
        "failure_first": None,     # the first failing case of the shard (before shrinking)
        "failure_history": [],     # the cases the shard had executed before it (same interpreter)
        "excluded": {},
        "notes": {},
        "harness_error": None,
        "budget_hit": False,
        "exhaustive": None,
        "nt_extra": 0,
    }


class _Collector:
    def __init__(self):
        self.res = _empty_result()
        self._nt = set()
        self._class_samples = {}

    def record(self, case, info):
        r = self.res
        r["evaluations"] += 1
        info = info or {}
        classes = info.get("classes", [])
        for c in classes:
            r["classes"][c] = r["classes"].get(c, 0) + 1
        if info.get("nontrivial"):
            key = info.get("key")
            self._nt.add(digest(key if key is not None else case))
        # keep a few samples: first ones, plus the first of every class
        want = len(r["samples"]) < 3
        for c in classes:
            if self._class_samples.get(c, 0) < 1 and len(r["samples"]) < MAX_SAMPLES:
                want = True
        if want and len(r["samples"]) < MAX_SAMPLES:
            for c in classes:
                self._class_samples[c] = self._class_samples.get(c, 0) + 1
            r["samples"].append({"case": _shorten(case), "classes": classes,
                                 "nontrivial": bool(info.get("nontrivial"))})

    def finish(self, ctx):
        self.res["nontrivial"] = sorted(self._nt)
        self.res["excluded"] = dict(ctx.excluded)
        self.res["notes"] = dict(ctx.notes)
        return self.res


def _shorten(case, limit=4000):
    s = canon(case)
    if len(s) <= limit:
        return jsonable(case)
    return {"truncated_json": s[:limit] + "...", "sha1": digest(case)}


def run_shard(args):
    """Runs in a fresh (spawned) interpreter."""
    prop, tier, seed, shard, n_examples, budget_s = args
    _quiet()
    res = _empty_result()
    try:
        mod = importlib.import_module(f"checks.{prop}")
        if hasattr(mod, "run_shard"):
            return mod.run_shard(prop, tier, derive_seed(seed, prop, shard), shard, n_examples, budget_s)
        return generic_shard(mod, prop, tier, derive_seed(seed, prop, shard), shard, n_examples, budget_s)
    except Exception:  # noqa: BLE001
        res["harness_error"] = traceback.format_exc()
        return res


def generic_shard(mod, prop, tier, dseed, shard, n_examples, budget_s):
    import hypothesis
    from hypothesis import HealthCheck, Phase, given, settings

    ctx = Ctx(prop)
    col = _Collector()
    t0 = time.time()
    state = {"fail": None, "fail_t": None, "best": None, "herr": None, "first": None, "history": None}
    history = collections.deque(maxlen=HISTORY_KEPT)
    shrink_budget = float(os.environ.get("VERIF_SHRINK_S") or (45.0 if tier == "quick" else 240.0))   # (maintenance runs shorten it)
    strat = mod.strategy(tier)

    def body(case):
        now = time.time()
        if state["fail_t"] is not None and now - state["fail_t"] > shrink_budget:
            return  # stop shrinking: pretend everything passes from here on
        if state["fail_t"] is None and now - t0 > budget_s:
            col.res["budget_hit"] = True
            return
        try:
            info = mod.check(case, ctx)
        except Violation as v:
            rec = {"case": jsonable(case), "what": v.what, "details": jsonable(v.details)}
            if state["fail_t"] is None:
                state["fail_t"] = now
                state["first"] = rec
                state["history"] = list(history)
            size = len(canon(case))
            if state["best"] is None or size <= state["best"][0]:
                state["best"] = (size, rec)
            raise
        except HarnessError:
            state["herr"] = traceback.format_exc()
            raise
        except Exception:
            # an exception escaping the check that is not a Violation is a harness fault
            state["herr"] = traceback.format_exc()
            raise
        if state["fail_t"] is None:
            col.record(case, info)
            history.append(jsonable(case))

    test = given(strat)(body)
    test = hypothesis.seed(dseed)(test)
    test = settings(
        max_examples=max(1, n_examples),
        database=None,
        deadline=None,
        derandomize=False,
        report_multiple_bugs=False,
        print_blob=False,
        phases=[Phase.generate, Phase.shrink],
        suppress_health_check=list(HealthCheck),
    )(test)
    try:
        test()
    except Exception:  # noqa: BLE001
        if state["herr"] is not None and state["best"] is None:
            col.res["harness_error"] = state["herr"]
        elif state["best"] is None:
            col.res["harness_error"] = traceback.format_exc()
    if state["best"] is not None:
        col.res["failure"] = state["best"][1]
        col.res["failure_first"] = state["first"]
        col.res["failure_history"] = state["history"] or []
    return col.finish(ctx)


def merge(results):
    out = _empty_result()
    nt = set()
    for r in results:
        out["evaluations"] += r["evaluations"]
        nt.update(r["nontrivial"])
        for k, v in r["classes"].items():
            out["classes"][k] = out["classes"].get(k, 0) + v
        for k, v in r["excluded"].items():
            out["excluded"][k] = out["excluded"].get(k, 0) + v
        for k, v in r["notes"].items():
            out["notes"][k] = out["notes"].get(k, 0) + v
        out["budget_hit"] = out["budget_hit"] or r["budget_hit"]
        out["nt_extra"] += int(r.get("nt_extra", 0))
        if r["failure"] and (out["failure"] is None or len(canon(r["failure"]["case"])) < len(canon(out["failure"]["case"]))):
            out["failure"] = r["failure"]
            out["failure_first"] = r.get("failure_first")
            out["failure_history"] = r.get("failure_history") or []
        if r["harness_error"] and not out["harness_error"]:
            out["harness_error"] = r["harness_error"]
        if r.get("exhaustive") is not None:
            out["exhaustive"] = r["exhaustive"] if out["exhaustive"] is None else (out["exhaustive"] and r["exhaustive"])
    # samples: round-robin over shards, prefer covering classes
    seen_classes = set()
    samples = []
    for r in results:
        for s in r["samples"]:
            new = [c for c in s.get("classes", []) if c not in seen_classes]
            if (new or len(samples) < 3) and len(samples) < MAX_SAMPLES:
                samples.append(s)
                seen_classes.update(s.get("classes", []))
    out["samples"] = samples
    out["nontrivial"] = nt
    return out


def _enum_chunk(args):
    """Runs in a spawned interpreter: evaluates a slice of an explicit list of cases with the check's own function."""
    prop, cases = args
    _quiet()
    mod = importlib.import_module(f"checks.{prop}")
    ctx = Ctx(prop)
    col = _Collector()
    for case in cases:
        try:
            info = mod.check(case, ctx)
        except Violation as v:
            if col.res["failure"] is None:
                col.res["failure"] = {"case": jsonable(case), "what": v.what, "details": jsonable(v.details)}
            continue
        except Exception:  # noqa: BLE001
            col.res["harness_error"] = traceback.format_exc()
            break
        info = dict(info or {})
        info["classes"] = ["enumerated"] + [c for c in info.get("classes", []) if c.startswith(("op:", "rule:", "shift:", "mode:"))]
        col.record(case, info)
    res = col.finish(ctx)
    res["samples"] = res["samples"][:2]
    return res


def enumerate_cases(prop, cases, procs=16):
    """Evaluate an explicit (finite, exhaustive) list of cases with `checks.<prop>.check`, sharded over processes.
    Returns the merged result structure of a shard (with exhaustive=True)."""
    cases = list(cases)
    k = max(1, min(procs, len(cases) // 8 or 1))
    chunks = [cases[i::k] for i in range(k)]
    ctx = mp.get_context("spawn")
    with ctx.Pool(k) as pool:
        outs = pool.map(_enum_chunk, [(prop, c) for c in chunks], chunksize=1)
    merged = merge(outs)
    merged["nontrivial"] = sorted(merged["nontrivial"])
    merged["exhaustive"] = True
    return merged


def write_replay(prop, failure, seed, tier):
    os.makedirs(os.path.join(HERE, "replays"), exist_ok=True)
    name = f"{prop}-{digest(failure['case'])[:12]}.json"
    path = os.path.join(HERE, "replays", name)
    with open(path, "w") as f:
        json.dump({"property": prop, "seed": seed, "tier": tier, **failure}, f, indent=1, sort_keys=True)
    return os.path.join("replays", name)


def replay_case(mod, prop, case, exclude_known=False, history=()):
    """`history`: cases executed first in the same interpreter, outcomes ignored (a failure that needs an earlier
    use of the library - state surviving on module or class level - is replayed together with that use)."""
    ctx = Ctx(prop, exclude_known=exclude_known)
    for h in history:
        try:
            mod.check(h, Ctx(prop, exclude_known=exclude_known))
        except Exception:  # noqa: BLE001 - only the traces they leave matter
            pass
    try:
        mod.check(case, ctx)
    except Violation as v:
        return {"case": jsonable(case), "what": v.what, "details": jsonable(v.details)}
    return None


def _fresh_replay(args):
    """Runs in a fresh (spawned, single-task) interpreter: does history + case violate the property?"""
    prop, case, hist = args
    _quiet()
    try:
        mod = importlib.import_module(f"checks.{prop}")
        return replay_case(mod, prop, case, exclude_known=True, history=hist)
    except Exception:  # noqa: BLE001
        return None


def localise_failure(prop, merged):
    """A failing case found late in a shard may depend on what the shard's interpreter executed before.  Replay it in
    fresh interpreters: alone; else after each single earlier case (newest first); else after the whole recorded
    history.  Returns the failure record to write, with a `history` entry when one is needed."""
    best, first, hist = merged["failure"], merged.get("failure_first") or merged["failure"], merged.get("failure_history") or []
    ctx = mp.get_context("spawn")
    try:
        with ctx.Pool(min(16, os.cpu_count() or 1), maxtasksperchild=1) as pool:
            alone = pool.map(_fresh_replay, [(prop, best["case"], []), (prop, first["case"], [])], chunksize=1)
            if alone[0]:
                return alone[0]
            if alone[1]:
                return alone[1]
            if not hist:
                return dict(best, note="not reproduced in a fresh interpreter; no history recorded")
            cands = list(reversed(hist))
            for target in (best, first):
                res = pool.map(_fresh_replay, [(prop, target["case"], [h]) for h in cands], chunksize=1)
                for h, r in zip(cands, res):
                    if r:
                        return dict(r, history=[h], note="needs an earlier use of the library in the same interpreter")
            r = pool.map(_fresh_replay, [(prop, first["case"], hist)], chunksize=1)[0]
            if r:
                return dict(r, history=hist, note="needs the earlier cases of its shard in the same interpreter")
    except Exception:  # noqa: BLE001
        traceback.print_exc()
    return dict(first, history=hist, note="failed inside its shard; not reproduced by a replay in a fresh interpreter")


def write_evidence(prop, mod, tier, seed, merged, wall, violations, extra):
    cov = {
        "evaluations": int(merged["evaluations"]),
        "distinct_nontrivial": int(len(merged["nontrivial"]) + merged.get("nt_extra", 0)),
        "rule": mod.RULE,
        "samples": merged["samples"],
        "class_histogram": dict(sorted(merged["classes"].items())),
        "excluded_known": merged["excluded"],
        "notes": merged["notes"],
        "budget_hit": bool(merged["budget_hit"]),
    }
    if merged.get("exhaustive") is not None:
        cov["exhaustive"] = bool(merged["exhaustive"])
    cov.update(extra)
    ev = {
        "property_id": prop,
        "tier": tier,
        "seed": int(seed),
        "level": "exploration",
        "coverage": cov,
        "assumptions": list(getattr(mod, "ASSUMPTIONS", [])),
        "wall_s": round(wall, 2),
        "violations": int(violations),
    }
    # VERIF_EVIDENCE_DIR: maintenance knob, used when the checks are pointed at a scratch copy of xgcm (seeded changes),
    # so that those runs do not overwrite the evidence of the real tree
    evdir = os.environ.get("VERIF_EVIDENCE_DIR") or os.path.join(HERE, "evidence")
    os.makedirs(evdir, exist_ok=True)
    path = os.path.join(evdir, f"{prop}.json")
    tmp = path + ".tmp"
    with open(tmp, "w") as f:
        json.dump(ev, f, indent=1, sort_keys=True, default=str)
    os.replace(tmp, path)


def main(argv=None):
    ap = argparse.ArgumentParser()
    ap.add_argument("prop")
    ap.add_argument("tier", nargs="?", default=None)
    ap.add_argument("--replay", default=None)
    ap.add_argument("--examples", type=int, default=None)
    ap.add_argument("--shards", type=int, default=None)
    ap.add_argument("--budget", type=float, default=None, help="wall-clock bound on search per shard (s)")
    a = ap.parse_args(argv)
    prop = a.prop
    tier = a.tier or os.environ.get("VERIF_TIER") or "quick"
    if tier not in ("quick", "thorough"):
        print(f"HARNESS-ERROR: unknown tier {tier}", file=sys.stderr)
        return 2
    try:
        seed = int(os.environ.get("VERIF_SEED", "1"))
    except ValueError:
        seed = 1
    _quiet()
    sys.path.insert(0, HERE)
    try:
        mod = importlib.import_module(f"checks.{prop}")
    except Exception:  # noqa: BLE001
        traceback.print_exc()
        print(f"HARNESS-ERROR: cannot import check {prop}", file=sys.stderr)
        return 2

    if a.replay:
        with open(a.replay) as f:
            rec = json.load(f)
        try:
            fail = replay_case(mod, prop, rec["case"], history=rec.get("history") or ())
        except Exception:  # noqa: BLE001
            traceback.print_exc()
            return 2
        if fail:
            print(f"replayed: {fail['what']}")
            print(json.dumps(fail["details"], indent=1)[:3000])
            print(f"VIOLATION property={prop} replay={a.replay}")
            return 1
        print(f"replay of {a.replay}: property held")
        return 0

    t0 = time.time()
    total = a.examples or mod.SIZES[tier]
    nshards = a.shards or min(16, getattr(mod, "MAX_SHARDS", 16), os.cpu_count() or 1, max(1, total // 20))
    budget = a.budget or (float(os.environ.get("VERIF_BUDGET_S", "0")) or (240.0 if tier == "quick" else 3000.0))
    violations = 0
    printed = []

    # --- pinned reproducers: open findings (expected to fail) and fixed ones (must pass)
    known_lines = []
    regress = 0
    try:
        for f in open_findings(prop):
            fail = replay_case(mod, prop, f["reproducer"], exclude_known=False)
            if fail:
                known_lines.append(f"KNOWN-FINDING: property={prop} {f['what']}")
            else:
                known_lines.append(f"NOTE: open finding {f['id']} of {prop} no longer reproduces")
        for f in fixed_findings(prop):
            if "reproducer" not in f:
                continue
            regress += 1
            fail = replay_case(mod, prop, f["reproducer"], exclude_known=False)
            if fail:
                path = write_replay(prop, fail, seed, tier)
                printed.append(f"VIOLATION property={prop} replay={path}")
                print(f"regression of fixed finding {f.get('id')}: {fail['what']}")
                violations += 1
        for case in getattr(mod, "REGRESSIONS", []):
            regress += 1
            fail = replay_case(mod, prop, case, exclude_known=True)
            if fail:
                path = write_replay(prop, fail, seed, tier)
                printed.append(f"VIOLATION property={prop} replay={path}")
                print(f"pinned regression case failed: {fail['what']}")
                violations += 1
    except Exception:  # noqa: BLE001
        traceback.print_exc()
        print(f"HARNESS-ERROR: reproducer replay failed for {prop}", file=sys.stderr)
        return 2

    # --- generated search, sharded
    per = max(1, total // nshards)
    jobs = [(prop, tier, seed, s, per, budget) for s in range(nshards)]
    ctx = mp.get_context("spawn")
    if nshards == 1:
        results = [run_shard(jobs[0])]
    else:
        with ctx.Pool(nshards) as pool:
            results = pool.map(run_shard, jobs, chunksize=1)
    extra = {}
    if hasattr(mod, "exhaustive_part"):
        try:
            ex = mod.exhaustive_part(tier, seed)
            results.append(ex["result"])
            extra.update(ex.get("extra", {}))
        except Exception:  # noqa: BLE001
            traceback.print_exc()
            print(f"HARNESS-ERROR: exhaustive part of {prop} failed", file=sys.stderr)
            return 2
    merged = merge(results)
    if merged["harness_error"]:
        print(merged["harness_error"], file=sys.stderr)
        print(f"HARNESS-ERROR: {prop} shard failed", file=sys.stderr)
        return 2
    if merged["failure"]:
        violations += 1
        if not hasattr(mod, "run_shard"):
            merged["failure"] = localise_failure(prop, merged)
            if merged["failure"].get("note"):
                print("note: " + merged["failure"]["note"])
        path = write_replay(prop, merged["failure"], seed, tier)
        print(f"violation: {merged['failure']['what']}")
        print(json.dumps(merged["failure"]["details"], indent=1, default=str)[:3000])
        printed.append(f"VIOLATION property={prop} replay={path}")
    wall = time.time() - t0
    extra["regressions_replayed"] = regress
    extra["shards"] = nshards
    extra["shard_seeds"] = [derive_seed(seed, prop, s) for s in range(nshards)][:4]
    try:
        write_evidence(prop, mod, tier, seed, merged, wall, violations, extra)
    except Exception:  # noqa: BLE001
        traceback.print_exc()
        return 2
    for line in known_lines:
        print(line)
    print(
        f"{prop} {tier} seed={seed}: evaluations={merged['evaluations']} "
        f"distinct_nontrivial={len(merged['nontrivial']) + merged.get('nt_extra', 0)} excluded={merged['excluded']} "
        f"wall={wall:.1f}s budget_hit={merged['budget_hit']}"
    )
    for line in printed:
        print(line)
    return 1 if violations else 0


if __name__ == "__main__":
    sys.exit(main())
