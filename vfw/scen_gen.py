"""Hypothesis strategies producing scenarios (vfw.scenario) - the shared corpus of valid call
sequences used by C12, C13, C18 and C20.  All identifiers are upper-case tokens (immune to the
substring defects the renaming check looks for); all calls are valid by construction."""
import itertools

from hypothesis import strategies as st

from . import gen
from .model.stencil import RULES

POS_LETTER = {"center": "C", "left": "L", "right": "R", "inner": "I", "outer": "O"}
OPS = ["diff", "interp", "min", "max"]
ints = st.integers(-9, 9).map(float)
metric_vals = st.integers(1, 24).map(lambda k: k / 4.0)


def dtok(axis, pos):
    return axis + POS_LETTER[pos]


def _spell(draw, values, axes):
    kind = draw(st.sampled_from(["none", "scalar", "total", "partial"]))
    if kind == "none":
        return None
    if kind == "scalar":
        return draw(values)
    if kind == "total" or len(axes) == 1:
        return {a: draw(values) for a in axes}
    sub = draw(st.lists(st.sampled_from(axes), min_size=1, max_size=len(axes) - 1, unique=True))
    return {a: draw(values) for a in sub}


fills = st.sampled_from([0.0, 1.0, -2.0, 5.5])


@st.composite
def simple_family(draw, max_calls=3, with_metrics=None):
    axes = draw(gen.layouts(max_axes=3, max_n=4, max_cells=90, allow_default_shifts=draw(st.booleans())))
    if all(len(a["positions"]) == 1 for a in axes):
        axes[0]["positions"].append(draw(st.sampled_from(gen.OTHER_POS)))
    names = [a["name"] for a in axes]
    by = {a["name"]: a for a in axes}
    dims, coords, gcoords = {}, {}, {}
    for a in axes:
        gcoords[a["name"]] = {}
        for p in a["positions"]:
            d = dtok(a["name"], p)
            dims[d] = gen.pos_len(a["n"], p)
            coords[d] = {"values": None, "attrs": {}}
            gcoords[a["name"]][p] = d
    extra = draw(st.sampled_from([[], [], [["E0", 2]]]))
    for e, s in extra:
        dims[e] = s
        coords[e] = {"values": None, "attrs": {}}
    with_metrics = draw(st.booleans()) if with_metrics is None else with_metrics
    vars_ = {}
    metrics = []
    if with_metrics:
        for a in axes:
            vs = []
            # metrics at every position, or (so that a metric has to be interpolated to the array's position) at some only
            subset = a["positions"] if draw(st.booleans()) else sorted(
                draw(st.sets(st.sampled_from(a["positions"]), min_size=1)), key=a["positions"].index)
            for p in subset:
                d = dtok(a["name"], p)
                vars_["M_" + d] = {"dims": [d], "values": draw(st.lists(metric_vals, min_size=dims[d], max_size=dims[d]))}
                vs.append("M_" + d)
            metrics.append([[a["name"]], vs])
    shiftable = [n for n in names if len(by[n]["positions"]) > 1]
    arrays = {}
    for k in range(draw(st.integers(1, 2))):
        carried = [n for n in names if n in shiftable[:1] or draw(st.booleans())]
        pos = {n: draw(st.sampled_from(by[n]["positions"])) for n in carried}
        dl = [dtok(n, pos[n]) for n in carried] + [e[0] for e in extra]
        order = draw(gen.permutations_of(dl))
        arrays[f"A{k}"] = {"dims": order, "values": draw(gen.data_values([dims[d] for d in order], elements=ints)),
                           "name": draw(st.sampled_from(["PHI", None])), "_pos": pos}
    gb = _spell(draw, st.sampled_from(RULES), names)
    grid = {"coords": gcoords, "periodic": draw(st.booleans()), "boundary": gb, "fill_value": _spell(draw, fills, names), "metrics": metrics or None}
    shifts = {a["name"]: dict(a["default_shifts"]) for a in axes if a.get("default_shifts")}
    if shifts:
        grid["default_shifts"] = shifts
    calls = []
    for _ in range(draw(st.integers(1, max_calls))):
        aname = draw(st.sampled_from(sorted(arrays)))
        pos = arrays[aname]["_pos"]
        cand = [n for n in pos if n in shiftable]
        op_axes = draw(st.lists(st.sampled_from(cand), min_size=1, max_size=len(cand), unique=True))
        to = {n: (draw(st.sampled_from(by[n]["positions"][1:])) if pos[n] == "center" else "center") for n in op_axes}
        kinds = OPS + ["cumsum"]
        if with_metrics:
            kinds = kinds + ["integrate", "average", "derivative", "cumint", "get_metric", "weighted"]
        kinds = kinds + ["gridop", "gridop"] + (["interp_like", "interp_like"] if len(arrays) > 1 else [])
        kind = draw(st.sampled_from(kinds))
        call = {"da": aname, "axis": op_axes, "axis_spelling": draw(st.sampled_from(["list", "tuple"]))}
        if kind == "gridop":
            n0 = op_axes[0]
            call = {"fn": "gridop", "op": draw(st.sampled_from(OPS + ["cumsum"])), "da": aname, "axis": n0, "frm": pos[n0], "to_pos": to[n0],
                    "boundary": _spell(draw, st.sampled_from(RULES), names), "fill_value": _spell(draw, fills, names)}
        elif kind == "interp_like":
            call = {"fn": "interp_like", "da": aname, "like": draw(st.sampled_from(sorted(a for a in arrays if a != aname)))}
        elif kind in OPS + ["cumsum", "cumint", "weighted"]:
            call["fn"] = kind if kind != "weighted" else draw(st.sampled_from(OPS + ["cumsum"]))
            call["to"] = draw(st.sampled_from([to, to, None]))
            if call["to"] is not None and draw(st.sampled_from([False, False, True])):
                # a mapping may leave an axis to its default shift by naming it with None
                call["to"] = {n: (None if draw(st.booleans()) else p) for n, p in to.items()}
            call["boundary"] = _spell(draw, st.sampled_from(RULES), names)
            call["fill_value"] = _spell(draw, fills, names)
            if kind == "weighted":
                # the documented spellings: per-axis mapping to a tuple of axes or to a single axis name, or (one axis) the name alone
                sp = draw(st.sampled_from(["dict-of-lists", "dict-of-str", "str"] if len(op_axes) == 1 else ["dict-of-lists", "dict-of-str"]))
                call["metric_weighted"] = {n: [n] for n in op_axes} if sp == "dict-of-lists" else ({n: n for n in op_axes} if sp == "dict-of-str" else op_axes[0])
            if len(op_axes) == 1 and draw(st.booleans()):
                call["axis"] = op_axes[0]
        elif kind == "derivative":
            call.update(fn="derivative", axis=op_axes[0], to=to[op_axes[0]], boundary=draw(st.sampled_from(RULES)))
        elif kind in ("integrate", "average"):
            call["fn"] = kind
            if len(op_axes) == 1 and draw(st.booleans()):
                call["axis"] = op_axes[0]  # `axis : str, list of str`
        else:
            call = {"fn": "get_metric", "da": aname, "axes": op_axes, "axis_spelling": draw(st.sampled_from(["list", "tuple"]))}
            if len(op_axes) == 1 and draw(st.booleans()):
                call["axes"] = op_axes[0]
        calls.append(call)
    for a in arrays.values():
        a.pop("_pos")
    return {"family": "simple", "dims": dims, "coords": coords, "vars": vars_, "grid": grid, "arrays": arrays, "calls": calls}


@st.composite
def default_shift_family(draw):
    """Grid-level default_shifts naming every axis; calls that leave `to` to them."""
    k = draw(st.integers(1, 2))
    axes = []
    for i in range(k):
        others = draw(st.lists(st.sampled_from(gen.OTHER_POS), min_size=2, max_size=3, unique=True))
        positions = ["center"] + [p for p in gen.OTHER_POS if p in others]
        shifts = {"center": draw(st.sampled_from(positions[1:]))}
        axes.append({"name": gen.AXIS_NAMES[i], "n": draw(st.integers(2, 4)), "positions": positions, "default_shifts": shifts})
    dims, coords, gcoords = {}, {}, {}
    for a in axes:
        gcoords[a["name"]] = {}
        for p in a["positions"]:
            d = dtok(a["name"], p)
            dims[d] = gen.pos_len(a["n"], p)
            coords[d] = {"values": None, "attrs": {}}
            gcoords[a["name"]][p] = d
    names = [a["name"] for a in axes]
    dl = draw(gen.permutations_of([dtok(n, "center") for n in names]))
    arrays = {"A0": {"dims": dl, "values": draw(gen.data_values([dims[d] for d in dl], elements=ints)), "name": draw(st.sampled_from(["PHI", None]))}}
    grid = {"coords": gcoords, "periodic": draw(st.booleans()), "boundary": _spell(draw, st.sampled_from(RULES), names),
            "fill_value": _spell(draw, fills, names), "metrics": None, "default_shifts": {a["name"]: dict(a["default_shifts"]) for a in axes}}
    calls = []
    for _ in range(draw(st.integers(1, 2))):
        op_axes = draw(st.lists(st.sampled_from(names), min_size=1, max_size=len(names), unique=True))
        calls.append({"fn": draw(st.sampled_from(OPS + ["cumsum"])), "da": "A0", "axis": op_axes if len(op_axes) > 1 or draw(st.booleans()) else op_axes[0],
                      "axis_spelling": draw(st.sampled_from(["list", "tuple"])), "to": None,
                      "boundary": _spell(draw, st.sampled_from(RULES), names), "fill_value": _spell(draw, fills, names)})
    calls.append({"fn": "axes"})
    return {"family": "default-shifts", "dims": dims, "coords": coords, "vars": {}, "grid": grid, "arrays": arrays, "calls": calls}


@st.composite
def faces_family(draw, max_calls=3):
    nf = draw(st.integers(2, 4))
    N = draw(st.integers(2, 3))
    table = draw(gen.link_tables(nf, ("X", "Y"), min_pairs=1, keep_empty=None))   # a face may leave out an axis it has no link on
    if draw(st.integers(0, 5)) == 0:
        # now and then an inconsistent table (one slot edited): it has to be refused - in every listing order, under every
        # hash seed and whatever the names are
        slots = [(f, a, k) for f in table for a in table[f] for k in (0, 1)]
        f, a, k = draw(st.sampled_from(slots))
        others = [None] + [[g, b, r] for g in range(nf) for b in ("X", "Y") for r in (False, True)]
        new = draw(st.sampled_from(others))
        if new != table[f][a][k]:
            table[f][a][k] = new
    dims = {"XC": N, "XL": N, "YC": N, "YL": N, "FACE": nf}
    extra = draw(st.sampled_from([[], [], [["E0", 2]]]))
    for e, s in extra:
        dims[e] = s
    coords = {d: {"values": None, "attrs": {}} for d in dims}
    lab = ["FACE"] + [e[0] for e in extra]
    order = draw(gen.permutations_of(lab + ["Y", "X"]))

    def arr(ydim, xdim):
        dl = [{"Y": ydim, "X": xdim}.get(l, l) for l in order]
        return {"dims": dl, "values": draw(gen.data_values([dims[d] for d in dl], elements=ints)), "name": None,
                "attrs": {"units": "K", "long_name": "field on " + ydim + " " + xdim}}

    arrays = {"S": arr("YC", "XC"), "U": arr("YC", "XL"), "V": arr("YL", "XC")}
    grid = {"coords": {"X": {"center": "XC", "left": "XL"}, "Y": {"center": "YC", "left": "YL"}}, "periodic": False,
            "boundary": {a: draw(st.sampled_from(RULES)) for a in "XY"}, "fill_value": {a: draw(fills) for a in "XY"},
            "face_connections": {"dim": "FACE", "table": table}}
    calls = []
    for _ in range(draw(st.integers(1, max_calls))):
        kind = draw(st.sampled_from(["pad-scalar", "pad-vector", "op-scalar", "op-vector", "vec2d", "ufunc"]))
        if kind == "ufunc":
            # a user grid ufunc with a halo, applied to the caller's own array on the face-connected grid
            a_ = draw(st.sampled_from(["X", "Y"]))
            call = {"fn": "ufunc", "sig": {"in": [[["D0", "center"]]], "out": [[["D0", "center"]]]}, "das": ["S"], "axis": [[a_]],
                    "bw": {"D0": [draw(st.integers(0, 1)), 1]}, "via": draw(st.sampled_from(["apply", "decorator"]))}
        elif kind == "vec2d":
            call = {"fn": "vec2d", "op": draw(st.sampled_from(["interp", "diff"])), "comps": {"X": "U", "Y": "V"},
                    "order": draw(st.sampled_from([["X", "Y"], ["Y", "X"]])),
                    "boundary": draw(st.sampled_from([None, "fill", "extend", {"X": "extend", "Y": "fill"}]))}
        elif kind.startswith("pad"):
            w = {a: [draw(st.integers(0, N)), draw(st.integers(0, N))] for a in "XY"}
            if all(x == [0, 0] for x in w.values()):
                w["X"] = [1, 1]
            call = {"fn": "pad", "widths": w, "boundary": draw(st.sampled_from([None, "fill", "extend", {"X": "extend", "Y": "fill"}]))}
            if kind == "pad-scalar":
                call["da"] = "S"
            else:
                c = draw(st.sampled_from(["X", "Y"]))
                call["da"] = {"vec": c, "da": "U" if c == "X" else "V"}
                call["other"] = {"vec": "Y" if c == "X" else "X", "da": "V" if c == "X" else "U"}
        elif kind == "op-scalar":
            call = {"fn": draw(st.sampled_from(OPS)), "da": "S", "axis": draw(st.sampled_from([["X"], ["Y"], ["X", "Y"], ["Y", "X"]])), "to": "left"}
        else:
            c = draw(st.sampled_from(["X", "Y"]))
            call = {"fn": draw(st.sampled_from(["diff", "interp"])), "da": {"vec": c, "da": "U" if c == "X" else "V"}, "axis": c, "to": "center",
                    "other": {"vec": "Y" if c == "X" else "X", "da": "V" if c == "X" else "U"}}
        calls.append(call)
    return {"family": "faces", "dims": dims, "coords": coords, "vars": {}, "grid": grid, "arrays": arrays, "calls": calls}


DUMMY_TOKS = ["D0", "D1", "D2"]


@st.composite
def random_sig(draw, dummies, positions=("center", "left", "right", "inner", "outer")):
    def arg(min_pairs=0):
        k = draw(st.integers(min_pairs, 2))
        return [[draw(st.sampled_from(dummies)), draw(st.sampled_from(positions))] for _ in range(k)]

    return {"in": [arg(1) for _ in range(draw(st.integers(1, 3)))], "out": [arg() for _ in range(draw(st.integers(1, 2)))]}


@st.composite
def equiv_family(draw):
    dummies = DUMMY_TOKS[: draw(st.integers(2, 3))]
    a = draw(random_sig(dummies))
    mode = draw(st.sampled_from(["permute", "permute", "same", "edit"]))
    if mode == "permute":
        perm = draw(st.permutations(dummies))
        m = dict(zip(dummies, perm))
        b = {k: [[[m[d], p] for d, p in arg] for arg in a[k]] for k in ("in", "out")}
    elif mode == "same":
        b = a
    else:
        b = draw(random_sig(dummies))
    return {"family": "equiv", "dims": {}, "coords": {}, "vars": {}, "grid": None, "arrays": {}, "calls": [{"fn": "equivalent", "a": a, "b": b}]}


@st.composite
def ufunc_multi_input(draw):
    """Two inputs on disjoint axes - the second brings two axes no earlier input has - combined into one output."""
    axes = ["X", "Y", "Z"]
    n = {a: draw(st.integers(2, 3)) for a in axes}
    positions = {a: ["center"] + sorted(draw(st.sets(st.sampled_from(["left", "right"]), max_size=1))) for a in axes}
    dims, coords, gcoords = {}, {}, {}
    for a in axes:
        gcoords[a] = {}
        for p in positions[a]:
            d = dtok(a, p)
            dims[d] = n[a]
            coords[d] = {"values": None, "attrs": {}}
            gcoords[a][p] = d
    dummies = list(draw(st.permutations(DUMMY_TOKS)))
    real = list(draw(st.permutations(axes)))
    pos = {d: draw(st.sampled_from(positions[r])) for d, r in zip(dummies, real)}
    sig = {"in": [[[dummies[0], pos[dummies[0]]]], [[dummies[1], pos[dummies[1]]], [dummies[2], pos[dummies[2]]]]],
           "out": [[[d, pos[d]] for d in dummies]]}
    d0 = [dtok(real[0], pos[dummies[0]])]
    d1 = draw(gen.permutations_of([dtok(real[1], pos[dummies[1]]), dtok(real[2], pos[dummies[2]])]))
    arrays = {"A0": {"dims": d0, "values": draw(gen.data_values([dims[d] for d in d0], elements=ints)), "name": "PHI"},
              "A1": {"dims": d1, "values": draw(gen.data_values([dims[d] for d in d1], elements=ints)), "name": None}}
    call = {"fn": "ufunc", "sig": sig, "das": ["A0", "A1"], "axis": [[real[0]], [real[1], real[2]]], "bw": None, "combine": "outer",
            "via": draw(st.sampled_from(["apply", "decorator"]))}
    return {"family": "ufunc", "dims": dims, "coords": coords, "vars": {}, "grid": {"coords": gcoords, "periodic": False}, "arrays": arrays,
            "calls": [call]}


@st.composite
def ufunc_family(draw):
    if draw(st.integers(0, 2)) == 0:
        return draw(ufunc_multi_input())
    n = {"X": draw(st.integers(3, 4)), "Y": draw(st.integers(3, 4))}
    positions = {a: ["center"] + sorted(draw(st.sets(st.sampled_from(["left", "right"]), min_size=1))) for a in "XY"}
    dims, coords, gcoords = {}, {}, {}
    for a in "XY":
        gcoords[a] = {}
        for p in positions[a]:
            d = dtok(a, p)
            dims[d] = n[a]
            coords[d] = {"values": None, "attrs": {}}
            gcoords[a][p] = d
    dummies = draw(st.permutations(DUMMY_TOKS))[:2]
    real = draw(st.permutations(["X", "Y"]))
    pin = {d: draw(st.sampled_from(positions[r])) for d, r in zip(dummies, real)}
    pout = {d: draw(st.sampled_from(positions[r])) for d, r in zip(dummies, real)}
    sig = {"in": [[[d, pin[d]] for d in dummies]], "out": [[[d, pout[d]] for d in dummies]]}
    dl = [dtok(r, pin[d]) for d, r in zip(dummies, real)]
    order = draw(gen.permutations_of(dl))
    arrays = {"A0": {"dims": order, "values": draw(gen.data_values([dims[d] for d in order], elements=ints)), "name": "PHI"}}
    bw = {d: [draw(st.integers(0, 2)), draw(st.integers(0, 2))] for d in dummies}
    call = {"fn": "ufunc", "sig": sig, "das": ["A0"], "axis": [list(real)], "bw": bw, "boundary": draw(st.sampled_from(["fill", "extend", "periodic"])),
            "fill_value": draw(fills), "via": draw(st.sampled_from(["apply", "decorator"]))}
    grid = {"coords": gcoords, "periodic": False}
    return {"family": "ufunc", "dims": dims, "coords": coords, "vars": {}, "grid": grid, "arrays": arrays, "calls": [call]}


PAD2 = {"left": "high", "right": "low", "inner": "both", "outer": "none"}


@st.composite
def autoparse_family(draw):
    conv = draw(st.sampled_from(["comodo", "sgrid"]))
    dims, coords, vars_, attrs = {}, {}, {}, {}
    expected_axes = []
    if conv == "comodo":
        axes = draw(st.lists(st.sampled_from(["X", "Y", "Z", "T"]), min_size=2, max_size=4, unique=True))
        how = draw(st.sampled_from(["float", "float", "str", "list", "arr", "f32"]))   # spelling of the shift attributes

        def shift(x, seq_ok=False):
            h = how if (seq_ok or how not in ("list", "arr")) else "str"   # a sequence carries no usable number
            return x if h == "float" else {"num": x, "as": h}

        for a in axes:
            n = draw(st.integers(2, 3))
            others = sorted(draw(st.sets(st.sampled_from(gen.OTHER_POS), min_size=1, max_size=2)))
            for p in ["center"] + others:
                d = dtok(a, p)
                dims[d] = gen.pos_len(n, p)
                at = {"axis": {"tok": a}}
                if p == "left":
                    at["c_grid_axis_shift"] = shift(-0.5)
                elif p == "right":
                    at["c_grid_axis_shift"] = shift(0.5)
                elif p in ("inner", "outer"):
                    at["c_grid_axis_shift"] = shift(draw(st.sampled_from([-0.5, 0.5])), seq_ok=True)
                coords[d] = {"values": None, "attrs": at}
            expected_axes.append((a, "center", others[0]))
    else:
        topo = draw(st.sampled_from(["2d", "2d+vert", "3d"]))
        axes = ["X", "Y"] if topo == "2d" else ["X", "Y", "Z"]
        groups = []
        for a in axes:
            n = draw(st.integers(2, 3))
            p = draw(st.sampled_from(["left", "right", "inner", "outer"]))
            dc, dn = dtok(a, "center"), dtok(a, p)
            dims[dc], dims[dn] = n, gen.pos_len(n, p)
            coords[dc] = {"values": None, "attrs": {}}
            coords[dn] = {"values": None, "attrs": {}}
            groups.append((dc, dn, PAD2[p]))
            expected_axes.append((a, "center", p))
        h = groups[:2] if topo == "2d+vert" else groups

        def fmt_of(gs):
            return " ".join("{%d}: {%d} (padding: %s)" % (2 * i, 2 * i + 1, g[2]) for i, g in enumerate(gs))

        gattrs = {"cf_role": "grid_topology", "topology_dimension": 3 if topo == "3d" else 2,
                  "node_dimensions": {"fmt": " ".join("{%d}" % i for i in range(len(h))), "toks": [g[1] for g in h]},
                  ("volume_dimensions" if topo == "3d" else "face_dimensions"): {"fmt": fmt_of(h), "toks": [t for g in h for t in g[:2]]}}
        if topo == "2d+vert":
            gattrs["vertical_dimensions"] = {"fmt": fmt_of(groups[2:]), "toks": list(groups[2][:2])}
        vars_["GRIDVAR"] = {"dims": [], "values": 1, "dtype": "int32", "attrs": gattrs}
        attrs["Conventions"] = "SGRID-0.3"
    dim_order = draw(gen.permutations_of(list(dims)))
    arrays = {}
    calls = [{"fn": "axes"}]
    if conv == "comodo":
        a, pc, po = expected_axes[0]
        d = dtok(a, pc)
        arrays["A0"] = {"dims": [d], "values": draw(gen.data_values([dims[d]], elements=ints)), "name": None}
        calls.append({"fn": "interp", "da": "A0", "axis": a, "to": po, "boundary": "extend"})
    return {"family": "autoparse", "dims": dims, "coords": coords, "dim_order": dim_order, "vars": vars_, "attrs": attrs,
            "grid": {"coords": None, "periodic": False}, "arrays": arrays, "calls": calls}


@st.composite
def metric_partition_family(draw):
    axes = ["X", "Y", "Z"]
    n = {a: draw(st.integers(2, 3)) for a in axes}
    positions = {a: ["center"] + (["left"] if draw(st.booleans()) else []) for a in axes}
    dims, coords, gcoords = {}, {}, {}
    for a in axes:
        gcoords[a] = {}
        for p in positions[a]:
            d = dtok(a, p)
            dims[d] = n[a]
            coords[d] = {"values": None, "attrs": {}}
            gcoords[a][p] = d
    subsets = [list(s) for k in (1, 2) for s in itertools.combinations(axes, k)]
    shape = draw(st.sampled_from(["singles", "pair+single", "random", "random"]))
    if shape == "singles":
        # the request is covered only by the product of three one-axis metrics
        chosen = [[a] for a in axes]
    elif shape == "pair+single":
        pair = draw(st.sampled_from([s for s in subsets if len(s) == 2]))
        chosen = [s for s in subsets if len(s) == 1] if draw(st.booleans()) else [[a] for a in axes if a not in pair]
        chosen = chosen + [pair]
    else:
        chosen = [s for s in subsets if draw(st.sampled_from([True, True, False]))]
    den = draw(st.sampled_from([8.0, 7.0, 10.0]))  # non-dyadic metric values: the order of the factors shows in the last bit
    vars_ = {}
    metrics = []
    for k, s in enumerate(chosen):
        pos = [draw(st.sampled_from(positions[a])) for a in s]
        dl = [dtok(a, p) for a, p in zip(s, pos)]
        name = "M" + "".join(s) + str(k)
        vars_[name] = {"dims": dl, "values": draw(gen.data_values([dims[d] for d in dl], elements=st.integers(1, 40).map(lambda q: q / den + 3 * k)))}
        metrics.append([s, [name]])
    dl = draw(gen.permutations_of([dtok(a, "center") for a in axes]))
    arrays = {"A0": {"dims": dl, "values": draw(gen.data_values([dims[d] for d in dl], elements=ints)), "name": None}}
    req = draw(st.permutations(axes))
    calls = [{"fn": "get_metric", "da": "A0", "axes": list(req), "axis_spelling": "tuple"}, {"fn": "integrate", "da": "A0", "axis": list(req)}]
    grid = {"coords": gcoords, "periodic": False, "metrics": metrics or None, "boundary": "extend"}
    return {"family": "metric-partitions", "dims": dims, "coords": coords, "vars": vars_, "grid": grid, "arrays": arrays, "calls": calls}


@st.composite
def transform_family(draw, kind=None):
    n = draw(st.integers(2, 4))
    dims = {"ZC": n, "ZO": n + 1, "E0": 2}
    zc = sorted(draw(st.sets(st.integers(0, 40).map(lambda k: k / 4.0), min_size=n, max_size=n)))
    coords = {"ZC": {"values": zc, "attrs": {}}, "ZO": {"values": None, "attrs": {}}, "E0": {"values": None, "attrs": {}}}
    lead = draw(st.booleans())
    dl = (["E0"] if lead else []) + ["ZC"]
    order = draw(gen.permutations_of(dl))
    arrays = {"A0": {"dims": order, "values": draw(gen.data_values([dims[d] for d in order], elements=ints)), "name": draw(st.sampled_from(["PHI", None]))}}
    prof = sorted(draw(st.sets(st.integers(-20, 20).map(lambda k: k / 2.0), min_size=n + 1, max_size=n + 1)))
    if draw(st.booleans()):
        prof = prof[::-1]
    arrays["TC"] = {"dims": ["ZC"], "values": prof[:n], "name": draw(st.sampled_from(["THETA", None]))}
    arrays["TO"] = {"dims": ["ZO"], "values": prof, "name": "THETA"}
    levels = draw(st.lists(st.sampled_from(prof + [min(prof) - 1, max(prof) + 1, (prof[0] + prof[1]) / 2]), min_size=2, max_size=4, unique=True))
    calls = []
    kind = kind or draw(st.sampled_from(["linear-td", "linear-coord", "conservative", "linear-nd"]))
    tdim = draw(st.sampled_from(["LEV", "SIGMA"]))
    if kind == "linear-td":
        calls.append({"fn": "transform", "da": "A0", "axis": "Z", "target": {"dims": [tdim], "values": levels} if draw(st.booleans()) else levels,
                      "target_data": "TC", "method": draw(st.sampled_from(["linear", "linear", "log"])) if min(prof) > 0 and min(levels) > 0 else "linear",
                      "mask_edges": draw(st.booleans())})
    elif kind == "linear-coord":
        lv = [zc[0], (zc[0] + zc[-1]) / 2, zc[-1] + 1]
        calls.append({"fn": "transform", "da": "A0", "axis": "Z", "target": {"dims": [tdim], "values": lv} if draw(st.booleans()) else lv,
                      "suffix": draw(st.sampled_from(["_transformed", "_T"]))})
    elif kind == "linear-nd":
        lv2 = [levels[:2], levels[:2][::-1]]
        calls.append({"fn": "transform", "da": "A0", "axis": "Z", "target": {"dims": ["E0", tdim], "values": lv2}, "target_data": "TC", "target_dim": tdim})
        if not lead:
            arrays["A0"]["dims"] = ["E0", "ZC"]
            arrays["A0"]["values"] = [arrays["A0"]["values"], arrays["A0"]["values"]]
    else:
        bins = sorted(set(levels + [min(prof), max(prof)]))
        if draw(st.booleans()):
            bins = bins[::-1]
        as_da = draw(st.booleans())
        call = {"fn": "transform", "da": "A0", "axis": "Z", "target": {"dims": [tdim], "values": bins} if as_da else bins,
                "target_data": draw(st.sampled_from(["TO", "TC"])), "method": "conservative"}
        if as_da and draw(st.booleans()):
            call["target_dim"] = tdim  # naming the (only) dimension of a 1-D target explicitly
        calls.append(call)
    # the same call once more with other target_data of the same name (another time step): calls must not leak into each other
    first = calls[0]
    if first.get("target_data") in ("TC", "TO") and draw(st.booleans()):
        src = arrays[first["target_data"]]
        arrays["T2"] = {"dims": list(src["dims"]), "values": [v * 0.5 + 1.25 for v in src["values"]], "name": src["name"]}
        calls.append(dict(first, target_data="T2"))
        if draw(st.booleans()):
            calls.reverse()
    grid = {"coords": {"Z": {"center": "ZC", "outer": "ZO"}}, "periodic": False}
    return {"family": "transform", "dims": dims, "coords": coords, "vars": {}, "grid": grid, "arrays": arrays, "calls": calls}


@st.composite
def metric_batch_family(draw):
    """Metrics registered in several batches (constructor + set_metrics calls naming several variables), then lookups at
    positions with and without a metric of their own."""
    n = {"X": draw(st.integers(2, 3)), "Y": draw(st.integers(2, 3))}
    positions = {"X": ["center", "left", "right", "outer"], "Y": ["center", "left"]}
    dims, coords, gcoords = {}, {}, {}
    for a in "XY":
        gcoords[a] = {}
        for p in positions[a]:
            d = dtok(a, p)
            dims[d] = gen.pos_len(n[a], p)
            coords[d] = {"values": None, "attrs": {}}
            gcoords[a][p] = d
    vars_ = {}
    pool = []
    k = 0
    for xp in positions["X"]:
        for yp in [None] + positions["Y"]:
            if draw(st.sampled_from([True, True, False])):
                k += 1
                dl = [dtok("X", xp)] + ([dtok("Y", yp)] if yp else [])
                name = f"MX{k}"
                vars_[name] = {"dims": dl, "values": draw(gen.data_values([dims[d] for d in dl], elements=st.integers(1, 40).map(lambda q: q / 8.0 + 5 * k)))}
                pool.append(name)
    if len(pool) < 3:
        for xp in ("center", "left", "right"):
            k += 1
            name = f"MX{k}"
            vars_[name] = {"dims": [dtok("X", xp)], "values": [1.0 + k + 0.25 * i for i in range(dims[dtok("X", xp)])]}
            pool.append(name)
    order = draw(st.permutations(pool))
    first = list(order[:1])
    rest = list(order[1:])
    calls = []
    # distinct dim sets only (same dim set twice would be a refusal, which is fine too but not the point here)
    seen = {frozenset(vars_[first[0]]["dims"])}
    batch = []
    for v in rest:
        fs = frozenset(vars_[v]["dims"])
        if fs in seen:
            continue
        seen.add(fs)
        batch.append(v)
    cut = draw(st.integers(0, len(batch)))
    for part in (batch[:cut], batch[cut:]):
        if part:
            calls.append({"fn": "set_metrics", "key": draw(st.sampled_from(["X", ["X"]])), "vars": part, "overwrite": draw(st.booleans())})
    arrays = {}
    for i, (xp, yp) in enumerate(draw(st.lists(st.tuples(st.sampled_from(positions["X"]), st.sampled_from(positions["Y"])), min_size=1, max_size=3, unique=True))):
        dl = draw(gen.permutations_of([dtok("X", xp), dtok("Y", yp)]))
        arrays[f"A{i}"] = {"dims": dl, "values": draw(gen.data_values([dims[d] for d in dl], elements=ints)), "name": None}
        calls.append({"fn": "get_metric", "da": f"A{i}", "axes": ["X"], "axis_spelling": "tuple"})
        calls.append({"fn": "integrate", "da": f"A{i}", "axis": ["X"]})
    grid = {"coords": gcoords, "periodic": False, "metrics": [[["X"], first]], "boundary": "extend"}
    return {"family": "metric-batches", "dims": dims, "coords": coords, "vars": vars_, "grid": grid, "arrays": arrays, "calls": calls}


def any_family(max_calls=3):
    return st.one_of(simple_family(max_calls), simple_family(max_calls), faces_family(max_calls), ufunc_family(), equiv_family(),
                     autoparse_family(), metric_partition_family(), metric_batch_family(), transform_family(), default_shift_family())


def tokens_of(sc):
    """All identifier tokens of a scenario with their namespace: {token: 'axis' | 'ds' | 'dummy'}."""
    toks = {}

    def add(t, space):
        if isinstance(t, str) and t not in toks:
            toks[t] = space

    for d in sc["dims"]:
        add(d, "ds")
    for v in sc.get("vars", {}):
        add(v, "ds")
    g = sc.get("grid") or {}
    for a in (g.get("coords") or {}):
        add(a, "axis")
    if g.get("face_connections"):
        add(g["face_connections"]["dim"], "ds")
    for spec in sc.get("coords", {}).values():
        for v in spec.get("attrs", {}).values():
            if isinstance(v, dict) and "tok" in v:
                add(v["tok"], "axis")
    for a in sc.get("arrays", {}).values():
        add(a.get("name"), "ds")
    for c in sc["calls"]:
        if c["fn"] == "ufunc":
            for arg in c["sig"]["in"] + c["sig"]["out"]:
                for d, _ in arg:
                    add(d, "dummy")
        if c["fn"] == "equivalent":
            for s in (c["a"], c["b"]):
                for arg in s["in"] + s["out"]:
                    for d, _ in arg:
                        add(d, "dummy")
        if c["fn"] == "transform":
            add(c.get("target_dim"), "ds")
            if isinstance(c.get("target"), dict):
                for d in c["target"]["dims"]:
                    add(d, "ds")
    return toks
