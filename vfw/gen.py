"""Shared Hypothesis strategies.  Every strategy yields plain JSON-serialisable values
(lists, dicts, numbers, strings) - never xarray objects - so that a shrunk case is its own
replay file."""
import numpy as np
from hypothesis import strategies as st
from hypothesis.extra import numpy as hnp

from .model.stencil import LEN_DELTA, RULES

AXIS_NAMES = ["X", "Y", "Z"]
OTHER_POS = ["left", "right", "inner", "outer"]
POS_LETTER = {"center": "c", "left": "l", "right": "r", "inner": "i", "outer": "o"}

small_ints = st.integers(-4, 4).map(float)
# a grid of "nice" floats (exact sums) mixed with arbitrary doubles
nice = st.one_of(
    small_ints,
    st.integers(-1000, 1000).map(lambda k: k / 8.0),
    st.floats(-1e6, 1e6, allow_nan=False, allow_infinity=False, width=64),
)
fill_values = st.one_of(st.sampled_from([0.0, 1.0, -1.0, 2.5, 100.0, -7.0]), st.integers(-9, 9), nice)


def dim_name(axis, pos):
    return axis.lower() + POS_LETTER[pos]


@st.composite
def axis_layout(draw, name, min_n=2, max_n=6, need_shift=False, allow_default_shifts=True, big_n=False):
    others = draw(st.sets(st.sampled_from(OTHER_POS), min_size=1 if need_shift else 0))
    positions = ["center"] + [p for p in OTHER_POS if p in others]
    if big_n and draw(st.integers(0, 7)) == 0:
        n = draw(st.integers(10, 48))  # now and then a long axis (no size-dependent branch may hide behind small n)
    else:
        n = draw(st.integers(min_n, max_n))
    ds = None
    if allow_default_shifts and others and draw(st.integers(0, 3)) == 0:
        ds = {}
        if draw(st.booleans()):
            ds["center"] = draw(st.sampled_from(positions[1:]))
        for p in positions[1:]:
            if draw(st.integers(0, 2)) == 0:
                ds[p] = "center"
        if not ds:
            ds = None
    return {"name": name, "n": n, "positions": positions, "default_shifts": ds}


@st.composite
def layouts(draw, min_axes=1, max_axes=3, min_n=2, max_n=6, max_cells=400, big_n=False, **kw):
    k = draw(st.integers(min_axes, max_axes))
    axes = []
    budget = max_cells
    for i in range(k):
        mx = max(min_n, min(max_n, int(budget ** (1.0 / (k - i))) if budget > 1 else min_n))
        ax = draw(axis_layout(AXIS_NAMES[i], min_n=min_n, max_n=mx, big_n=(big_n and i == 0), **kw))
        budget = max(1, budget // (ax["n"] + 1))
        axes.append(ax)
    # the order in which the axes are listed (and hence given to Grid(coords=...)) is drawn as well
    return list(draw(st.permutations(axes)))


def extra_dims():
    # mostly 0-2 extra dimensions, now and then three
    return st.one_of(st.lists(st.integers(1, 3), min_size=0, max_size=2), st.lists(st.integers(1, 3), min_size=0, max_size=2),
                     st.lists(st.integers(1, 2), min_size=3, max_size=3)).map(
        lambda sizes: [[f"e{i}", s] for i, s in enumerate(sizes)]
    )


def data_values(shape, elements=None):
    """float64 arrays as nested lists; Hypothesis' array strategy draws a few distinct
    elements and a fill value, so ties, zeros and repeated values are frequent."""
    el = elements or nice
    return hnp.arrays(np.float64, tuple(shape), elements=el, fill=el).map(lambda a: a.tolist())


def permutations_of(items):
    return st.permutations(list(items)).map(list)


# ---------------------------------------------------------------- boundary spellings
def _spelling(values_strategy, axes, allow_partial=True, allow_none=True):
    """A per-axis choice spelled as None / scalar / total mapping / partial mapping."""
    opts = []
    if allow_none:
        opts.append(st.none())
    opts.append(values_strategy)
    opts.append(st.fixed_dictionaries({a: values_strategy for a in axes}))
    if allow_partial and len(axes) > 1:
        opts.append(
            st.sets(st.sampled_from(axes), min_size=1, max_size=len(axes) - 1).flatmap(
                lambda sub: st.fixed_dictionaries({a: values_strategy for a in sorted(sub)})
            )
        )
    return st.one_of(*opts)


def boundary_spelling(axes, **kw):
    return _spelling(st.sampled_from(RULES), axes, **kw)


def fill_spelling(axes, **kw):
    return _spelling(fill_values, axes, **kw)


def periodic_spelling(axes, exotic=True):
    opts = [st.booleans()]
    if exotic:
        opts.append(st.sets(st.sampled_from(axes)).map(sorted))  # list naming a subset
        opts.append(st.fixed_dictionaries({a: st.booleans() for a in axes}))
    return st.one_of(*opts)


@st.composite
def grid_settings(draw, axes, exotic=True):
    return {
        "periodic": draw(periodic_spelling(axes, exotic=exotic)),
        "boundary": draw(boundary_spelling(axes, allow_partial=exotic)),
        "fill_value": draw(fill_spelling(axes, allow_partial=exotic)),
    }


def pos_len(n, pos):
    return n + LEN_DELTA[pos]


# ---------------------------------------------------------------- face-connection tables
@st.composite
def link_tables(draw, nfaces, axes=("X", "Y"), min_pairs=1, allow_self=True, keep_empty=None):
    """Random reciprocal table: a partial matching of the faces x axes x {left,right} edge
    slots.  A matched pair of slots yields reciprocal links with reverse = (side1 == side2);
    a slot matched with itself is a reversed self-link.  JSON form:
    {str(face): {axis: [link|None, link|None]}}, link = [face, axis, reverse]."""
    slots = [(f, a, s) for f in range(nfaces) for a in axes for s in (0, 1)]
    perm = draw(st.permutations(slots))
    npairs = draw(st.integers(min_pairs, len(slots) // 2))
    tab = {f: {a: [None, None] for a in axes} for f in range(nfaces)}
    i = 0
    for _ in range(npairs):
        if i >= len(perm):
            break
        if allow_self and draw(st.integers(0, 9)) == 0:
            s1 = s2 = perm[i]
            i += 1
        else:
            if i + 1 >= len(perm):
                break
            s1, s2 = perm[i], perm[i + 1]
            i += 2
        rev = bool(s1[2] == s2[2])
        tab[s1[0]][s1[1]][s1[2]] = [s2[0], s2[1], rev]
        tab[s2[0]][s2[1]][s2[2]] = [s1[0], s1[1], rev]
    out = {}
    for f in range(nfaces):
        out[str(f)] = {}
        for a in axes:
            if tab[f][a] != [None, None] or (draw(st.booleans()) if keep_empty is None else keep_empty):
                out[str(f)][a] = tab[f][a]
    return out


def _flag(v, style):
    if style == "numpy":
        return np.bool_(v)
    if style == "int":
        return int(bool(v))
    return bool(v)


def _face(v, style):
    return np.int64(v) if style == "numpy" else int(v)


def table_to_xgcm(table, facedim="face", face_order=None, reverse_axes=False, flag_style="python"):
    """JSON table -> the nested dict xgcm expects (int face keys, tuple links).  `face_order` (a list of
    positions) and `reverse_axes` change only the order in which faces / axes are *listed* in the dicts;
    `flag_style` the Python type of the `reverse` flags and face numbers inside the links (bool/int, numpy.bool_/
    numpy.int64 as in tables computed with numpy, or 0/1)."""
    faces = list(table)
    if face_order:
        faces = [faces[i] for i in face_order if i < len(faces)] + [f for k, f in enumerate(faces) if k not in face_order]
    out = {}
    for f in faces:
        per = table[f]
        axes = list(per)[::-1] if reverse_axes else list(per)
        out[int(f)] = {a: tuple(None if l is None else (_face(l[0], flag_style), l[1], _flag(l[2], flag_style)) for l in per[a]) for a in axes}
    return {facedim: out}


def table_to_model(table):
    return {int(f): {a: [None if l is None else (int(l[0]), l[1], bool(l[2])) for l in sides]
                     for a, sides in per.items()} for f, per in table.items()}


def rule_sources(rule):
    """(label, grid settings, call_boundary, call_fill): the ways in which a boundary rule and a fill value can come to be in
    force for a call - used by the exhaustive tables of C01 / C02 / C09."""
    other = {"fill": "extend", "extend": "periodic", "periodic": "fill"}[rule]
    return [
        ("grid", {"periodic": False, "boundary": rule, "fill_value": -5.0}, None, None),
        ("call", {"periodic": False, "boundary": None, "fill_value": None}, rule, 2.5),
        ("both", {"periodic": False, "boundary": other, "fill_value": -5.0}, rule, 2.5),
        ("call-rule-grid-fill", {"periodic": False, "boundary": None, "fill_value": -5.0}, rule, None),
        ("call-rule-grid-fill-other-rule", {"periodic": False, "boundary": other, "fill_value": -5.0}, rule, None),
        ("grid-rule-call-fill", {"periodic": False, "boundary": rule, "fill_value": 9.0}, None, 2.5),
        ("periodic-grid-call-rule", {"periodic": True, "boundary": None, "fill_value": -5.0}, rule, None),
    ]
