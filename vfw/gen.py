"""Shared Hypothesis strategies.  Every strategy yields plain JSON-serialisable values
(lists, dicts, numbers, strings) - never xarray objects - so that a shrunk case is its own
replay file."""
import numpy as np
from hypothesis import strategies as st
from hypothesis.extra import numpy as hnp

from .model.stencil import LEN_DELTA, RULES

AXIS_NAMES = ["X", "Y", "Z"]
OTHER_POS = ["left", "right", "inner", "outer"]
POS_LETTER = {"center": "c", "left": "l", "right": "r", "inner": "i", "outer": "o"}

small_ints = st.integers(-4, 4).map(float)
# a grid of "nice" floats (exact sums) mixed with arbitrary doubles
nice = st.one_of(
    small_ints,
    st.integers(-1000, 1000).map(lambda k: k / 8.0),
    st.floats(-1e6, 1e6, allow_nan=False, allow_infinity=False, width=64),
)
fill_values = st.one_of(st.sampled_from([0.0, 1.0, -1.0, 2.5, 100.0, -7.0]), st.integers(-9, 9), nice)


def dim_name(axis, pos):
    return axis.lower() + POS_LETTER[pos]


@st.composite
def axis_layout(draw, name, min_n=2, max_n=6, need_shift=False, allow_default_shifts=True):
    others = draw(st.sets(st.sampled_from(OTHER_POS), min_size=1 if need_shift else 0))
    positions = ["center"] + [p for p in OTHER_POS if p in others]
    n = draw(st.integers(min_n, max_n))
    ds = None
    if allow_default_shifts and others and draw(st.integers(0, 3)) == 0:
        ds = {}
        if draw(st.booleans()):
            ds["center"] = draw(st.sampled_from(positions[1:]))
        for p in positions[1:]:
            if draw(st.integers(0, 2)) == 0:
                ds[p] = "center"
        if not ds:
            ds = None
    return {"name": name, "n": n, "positions": positions, "default_shifts": ds}


@st.composite
def layouts(draw, min_axes=1, max_axes=3, min_n=2, max_n=6, max_cells=400, **kw):
    k = draw(st.integers(min_axes, max_axes))
    axes = []
    budget = max_cells
    for i in range(k):
        mx = max(min_n, min(max_n, int(budget ** (1.0 / (k - i))) if budget > 1 else min_n))
        ax = draw(axis_layout(AXIS_NAMES[i], min_n=min_n, max_n=mx, **kw))
        budget = max(1, budget // (ax["n"] + 1))
        axes.append(ax)
    return axes


def extra_dims():
    return st.lists(st.integers(1, 3), min_size=0, max_size=2).map(
        lambda sizes: [[f"e{i}", s] for i, s in enumerate(sizes)]
    )


def data_values(shape, elements=None):
    """float64 arrays as nested lists; Hypothesis' array strategy draws a few distinct
    elements and a fill value, so ties, zeros and repeated values are frequent."""
    el = elements or nice
    return hnp.arrays(np.float64, tuple(shape), elements=el, fill=el).map(lambda a: a.tolist())


def permutations_of(items):
    return st.permutations(list(items)).map(list)


# ---------------------------------------------------------------- boundary spellings
def _spelling(values_strategy, axes, allow_partial=True, allow_none=True):
    """A per-axis choice spelled as None / scalar / total mapping / partial mapping."""
    opts = []
    if allow_none:
        opts.append(st.none())
    opts.append(values_strategy)
    opts.append(st.fixed_dictionaries({a: values_strategy for a in axes}))
    if allow_partial and len(axes) > 1:
        opts.append(
            st.sets(st.sampled_from(axes), min_size=1, max_size=len(axes) - 1).flatmap(
                lambda sub: st.fixed_dictionaries({a: values_strategy for a in sorted(sub)})
            )
        )
    return st.one_of(*opts)


def boundary_spelling(axes, **kw):
    return _spelling(st.sampled_from(RULES), axes, **kw)


def fill_spelling(axes, **kw):
    return _spelling(fill_values, axes, **kw)


def periodic_spelling(axes, exotic=True):
    opts = [st.booleans()]
    if exotic:
        opts.append(st.sets(st.sampled_from(axes)).map(sorted))  # list naming a subset
        opts.append(st.fixed_dictionaries({a: st.booleans() for a in axes}))
    return st.one_of(*opts)


@st.composite
def grid_settings(draw, axes, exotic=True):
    return {
        "periodic": draw(periodic_spelling(axes, exotic=exotic)),
        "boundary": draw(boundary_spelling(axes, allow_partial=exotic)),
        "fill_value": draw(fill_spelling(axes, allow_partial=exotic)),
    }


def pos_len(n, pos):
    return n + LEN_DELTA[pos]
