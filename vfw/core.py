"""Shared primitives of the verification framework: the Violation type, canonical JSON,
known-finding bookkeeping and the wrapper used to call into xgcm."""
import hashlib
import json
import os
import traceback

HERE = os.path.dirname(os.path.dirname(os.path.abspath(__file__)))
KNOWN_FINDINGS_FILE = os.path.join(HERE, "known_findings.json")


class Violation(Exception):
    """The property under check does not hold for the case being evaluated."""

    def __init__(self, what, **details):
        super().__init__(what)
        self.what = what
        self.details = details


class HarnessError(Exception):
    """Something is wrong with the check itself (never reported as a violation)."""


def canon(obj):
    return json.dumps(obj, sort_keys=True, separators=(",", ":"), default=_default)


def _default(o):
    import numpy as np

    if isinstance(o, (np.integer,)):
        return int(o)
    if isinstance(o, (np.floating,)):
        return float(o)
    if isinstance(o, np.bool_):
        return bool(o)
    if isinstance(o, np.ndarray):
        return o.tolist()
    if isinstance(o, (set, frozenset)):
        return sorted(o)
    if isinstance(o, tuple):
        return list(o)
    raise TypeError(f"not JSON serialisable: {type(o)}")


def jsonable(obj):
    return json.loads(canon(obj))


def digest(obj):
    return hashlib.sha1(canon(obj).encode()).hexdigest()[:16]


def innermost_xgcm_frame(exc):
    tb = traceback.extract_tb(exc.__traceback__)
    for fr in reversed(tb):
        if "/xgcm/" in fr.filename and "/test/" not in fr.filename:
            return f"{os.path.basename(fr.filename)}:{fr.lineno}:{fr.name}"
    if tb:
        fr = tb[-1]
        return f"{os.path.basename(fr.filename)}:{fr.lineno}:{fr.name}"
    return "?"


def must_return(what, fn, *args, **kwargs):
    """Call into xgcm where the property says the call is valid: an exception is a violation."""
    try:
        return fn(*args, **kwargs)
    except Violation:
        raise
    except Exception as e:  # noqa: BLE001 - any exception from a valid call is the finding
        raise Violation(
            f"{what}: valid call raised {type(e).__name__}",
            exception=type(e).__name__,
            message=str(e)[:300],
            frame=innermost_xgcm_frame(e),
        )


def outcome_of(fn, *args, **kwargs):
    """Run fn; return ('ok', value) or ('raise', ExceptionTypeName)."""
    try:
        return ("ok", fn(*args, **kwargs))
    except Exception as e:  # noqa: BLE001
        return ("raise", type(e).__name__)


# ---------------------------------------------------------------- known findings
_KF_CACHE = None


def load_known_findings():
    global _KF_CACHE
    if _KF_CACHE is None:
        if os.path.exists(KNOWN_FINDINGS_FILE):
            with open(KNOWN_FINDINGS_FILE) as f:
                _KF_CACHE = json.load(f)["findings"]
        else:
            _KF_CACHE = []
    return _KF_CACHE


def open_findings(prop):
    return [f for f in load_known_findings() if f["property"] == prop and f["status"] == "open"]


def fixed_findings(prop):
    return [f for f in load_known_findings() if f["property"] == prop and f["status"] == "fixed"]


class Ctx:
    """Per-shard bookkeeping handed to check functions."""

    def __init__(self, prop, exclude_known=True):
        self.prop = prop
        self.exclude_known = exclude_known
        self._open = {f["id"]: f for f in open_findings(prop)}
        self.excluded = {}
        self.notes = {}

    def known(self, finding_id):
        """True iff `finding_id` is an *open* known finding and exclusion is active.  The
        caller evaluates the structural predicate on the input itself and, when it holds,
        skips the affected assertion after calling `count_excluded`."""
        return self.exclude_known and finding_id in self._open

    def count_excluded(self, finding_id):
        self.excluded[finding_id] = self.excluded.get(finding_id, 0) + 1

    def note(self, key, n=1):
        self.notes[key] = self.notes.get(key, 0) + n
