"""Scenario DSL interpreter shared by C12 (hash seed / ordering), C13 (renaming), C18 (no
mutation) and C20 (ill-posed requests).

A scenario is plain JSON.  Every identifier (axis, dimension, variable, face dimension, ufunc
dummy name, target_dim, array name) is a *token*; `names` maps tokens to the actual names used
when the xarray / xgcm objects are built, and outcomes are reported in tokens again, so that
two runs of the same scenario under different name maps are directly comparable.

scenario = {
  "dims":   {dim: size},
  "coords": {dim: {"values": [...]|None, "attrs": {k: v | {"tok": token}}}},   # dimension coordinates
  "ndcoords": {name: {"dims": [dim], "values": nested}},                        # optional
  "vars":   {var: {"dims": [dim], "values": nested, "attrs": {...}}},
  "attrs":  {k: v | {"fmt": "...{0}...", "toks": [token...]}},                    # dataset attrs
  "grid":   {"coords": {axis: {pos: dim}} | None, "periodic": ..., "boundary": ..., "fill_value": ...,
             "default_shifts": ..., "face_connections": {"dim": facedim, "table": {face: {axis: [link, link]}}},
             "metrics": [[[axis...], [var...]]...], "autoparse": bool, "order": [int...]},
  "arrays": {arr: {"dims": [dim], "values": nested, "name": token|None, "chunks": {dim: [sizes]}|None}},
  "calls":  [call...]
}
"""
import warnings

import numpy as np

from .core import jsonable


class Names:
    """Token -> actual name.  Tokens are globally unique; actual names need only be unique within a
    *namespace* ('axis' names, 'ds' = dimension / variable / coordinate / array names, 'dummy' = ufunc dummy
    names), so the same actual name may legitimately occur in two namespaces (an axis called like a
    dimension, a dummy name equal to the name of a real axis).  `spaces` maps token -> namespace."""

    def __init__(self, mapping=None, spaces=None):
        self.map = dict(mapping or {})
        self.spaces = dict(spaces or {})
        self.inv = {}
        for tok, actual in self.map.items():
            self.inv.setdefault(self.spaces.get(tok, "ds"), {})[actual] = tok

    def __call__(self, tok):
        if tok is None:
            return None
        return self.map.get(tok, tok)

    def back(self, name, space="ds"):
        if name is None:
            return None
        return self.inv.get(space, {}).get(name, name)


def spell_number(num, how):
    """An attribute number in one of the spellings found in real files (xgcm's COMODO parser documents that it accepts
    "malformed c_grid_axis_shift attributes such as produced by old versions of xmitgcm")."""
    if how == "str":
        return repr(float(num))
    if how == "list":
        return [float(num)]
    if how == "arr":
        return np.array([float(num)])
    if how == "f32":
        return np.float32(num)
    return float(num)


def _resolve_attr(v, nm):
    if isinstance(v, dict) and "num" in v:
        return spell_number(v["num"], v.get("as"))
    if isinstance(v, dict) and "tok" in v:
        return nm(v["tok"])
    if isinstance(v, dict) and "fmt" in v:
        return v["fmt"].format(*[nm(t) for t in v["toks"]])
    return v


def _axis_map(v, nm):
    """A per-axis mapping argument (boundary, fill_value, to, ...) keyed by axis tokens."""
    if isinstance(v, dict):
        return {nm(k): _axis_map(x, nm) if isinstance(x, dict) else x for k, x in v.items()}
    return v


def build_dataset(sc, nm):
    import xarray as xr

    coords = {}
    for d, size in sc["dims"].items():
        spec = sc.get("coords", {}).get(d)
        if spec is None:
            continue
        vals = spec.get("values")
        vals = np.arange(size) * 1.0 if vals is None else np.asarray(vals, dtype=np.float64)
        attrs = {k: _resolve_attr(v, nm) for k, v in spec.get("attrs", {}).items()}
        coords[nm(d)] = xr.DataArray(vals, dims=[nm(d)], attrs=attrs)
    order = [nm(d) for d in (sc.get("dim_order") or sc["dims"]) if nm(d) in coords]
    ds = xr.Dataset(coords={d: coords[d] for d in order})
    missing = [d for d in sc["dims"] if nm(d) not in ds.dims]
    if missing:
        for d in missing:
            ds["_len_" + nm(d)] = xr.DataArray(np.zeros(sc["dims"][d]), dims=[nm(d)])
    for name, spec in sc.get("ndcoords", {}).items():
        ds = ds.assign_coords({nm(name): xr.DataArray(np.asarray(spec["values"], dtype=np.float64), dims=[nm(d) for d in spec["dims"]])})
    for v, spec in sc.get("vars", {}).items():
        attrs = {k: _resolve_attr(x, nm) for k, x in spec.get("attrs", {}).items()}
        vals = np.asarray(spec["values"], dtype=spec.get("dtype", "float64"))
        ds[nm(v)] = xr.DataArray(vals, dims=[nm(d) for d in spec["dims"]], attrs=attrs)
    for k, v in sc.get("attrs", {}).items():
        ds.attrs[k] = _resolve_attr(v, nm)
    return ds


def face_connections_arg(fc, nm):
    if not fc:
        return None
    order = fc.get("order")
    faces = list(fc["table"])
    if order:
        faces = [faces[i % len(faces)] for i in order if True]
        seen = []
        for f in faces + list(fc["table"]):
            if f not in seen:
                seen.append(f)
        faces = seen
    table = {}
    for f in faces:
        per = fc["table"][f]
        axes_order = list(per)
        if fc.get("reverse_axes"):
            axes_order = axes_order[::-1]
        table[int(f)] = {nm(a): tuple(None if l is None else (int(l[0]), nm(l[1]), bool(l[2])) for l in per[a]) for a in axes_order}
    return {nm(fc["dim"]): table}


def grid_kwargs(sc, nm):
    """The keyword arguments of Grid(ds, ...) for this scenario (fresh mapping objects)."""
    g = sc["grid"]
    kw = {}
    if g.get("coords") is not None:
        axes = list(g["coords"])
        if g.get("order"):
            axes = [axes[i] for i in g["order"] if i < len(axes)] + [a for a in axes if a not in [axes[i] for i in g["order"] if i < len(axes)]]
            seen = []
            for a in axes:
                if a not in seen:
                    seen.append(a)
            axes = seen
        kw["coords"] = {nm(a): {p: nm(d) for p, d in g["coords"][a].items()} for a in axes}
        kw["autoparse_metadata"] = False
    for k in ("boundary", "fill_value"):
        if g.get(k) is not None:
            kw[k] = _axis_map(g[k], nm)
    if "periodic" in g:
        p = g["periodic"]
        kw["periodic"] = [nm(a) for a in p] if isinstance(p, list) else _axis_map(p, nm)
    if g.get("default_shifts"):
        kw["default_shifts"] = {nm(a): dict(v) for a, v in g["default_shifts"].items()}
    if g.get("face_connections"):
        kw["face_connections"] = face_connections_arg(g["face_connections"], nm)
    if g.get("metrics"):
        items = list(g["metrics"])
        if g.get("metrics_order"):
            items = [items[i] for i in g["metrics_order"] if i < len(items)] + [x for j, x in enumerate(items) if j not in g["metrics_order"]]
        kw["metrics"] = {tuple(nm(a) for a in axes): [nm(v) for v in vs] for axes, vs in items}
    return kw


def build_grid(sc, ds, nm):
    from xgcm import Grid

    return Grid(ds, **grid_kwargs(sc, nm))


def build_array(spec, nm):
    import xarray as xr

    da = xr.DataArray(np.asarray(spec["values"], dtype=np.float64), dims=[nm(d) for d in spec["dims"]], name=nm(spec.get("name")),
                      attrs=dict(spec.get("attrs") or {}))
    if spec.get("chunks"):
        da = da.chunk({nm(d): tuple(c) for d, c in spec["chunks"].items()})
    return da


def sig_string(sig, nm):
    def side(args):
        return ",".join("(" + ",".join(f"{nm(d)}:{p}" for d, p in arg) + ")" for arg in args)

    return side(sig["in"]) + "->" + side(sig["out"])


def window_sum(widths_in_order):
    def f(*arrays):
        a = arrays[0]
        out = a
        nd = len(widths_in_order)
        for j, (lo, hi) in enumerate(widths_in_order):
            axis = a.ndim - nd + j
            L = out.shape[axis] - lo - hi
            acc = None
            for k in range(lo + hi + 1):
                sl = [slice(None)] * out.ndim
                sl[axis] = slice(k, k + L)
                piece = out[tuple(sl)]
                acc = piece if acc is None else acc + piece
            out = acc
        return out

    return f


class Env:
    """Objects of one scenario run: dataset, grid, the pool of shared argument objects."""

    def __init__(self, sc, names=None):
        self.sc = sc
        if isinstance(names, Names):
            self.nm = names
        elif isinstance(names, dict) and "map" in names and "spaces" in names:
            self.nm = Names(names["map"], names["spaces"])
        else:
            self.nm = Names(names)
        self.ds = build_dataset(sc, self.nm)
        self.grid_error = None
        self.grid = None
        self.arrays = {k: build_array(v, self.nm) for k, v in sc.get("arrays", {}).items()}
        self.objects = {}  # shared dict arguments (C18), built lazily per key
        self.grid_kw = None
        if sc.get("grid") is not None:
            from xgcm import Grid

            self.grid_kw = grid_kwargs(sc, self.nm)  # kept: the constructor's argument objects (C18 snapshots them)
            self.grid = Grid(self.ds, **self.grid_kw)
            # registration calls that belong to the set-up of the Grid rather than to the calls under observation
            for j, c in enumerate(sc["grid"].get("post_setup") or []):
                self.run_call(20_000 + j, c)

    # -- argument materialisation
    def data(self, ref):
        if isinstance(ref, dict):
            return {self.nm(ref["vec"]): self.arrays[ref["da"]]}
        return self.arrays[ref]

    def shared(self, key, maker):
        """One object per key for the whole scenario (so that calls share argument objects)."""
        if key not in self.objects:
            self.objects[key] = maker()
        return self.objects[key]

    def axis_arg(self, call):
        ax = call["axis"]
        if isinstance(ax, str):
            return self.nm(ax)
        sp = call.get("axis_spelling", "list")
        vals = [self.nm(a) for a in ax]
        return tuple(vals) if sp == "tuple" else vals

    def call_kwargs(self, i, call):
        nm = self.nm
        kw = {}
        for k in ("boundary", "fill_value", "to", "metric_weighted"):
            if call.get(k) is not None:
                v = call[k]
                if k == "metric_weighted" and isinstance(v, list):
                    kw[k] = tuple(nm(a) for a in v)
                elif k == "metric_weighted" and isinstance(v, dict):
                    kw[k] = self.shared((i, k), lambda v=v: {nm(a): (nm(bs) if isinstance(bs, str) else tuple(nm(b) for b in bs)) for a, bs in v.items()})
                elif k == "metric_weighted" and isinstance(v, str):
                    kw[k] = nm(v)
                elif isinstance(v, dict):
                    kw[k] = self.shared((call.get("share", i), k), lambda v=v: _axis_map(v, nm))
                else:
                    kw[k] = v
        if call.get("other") is not None:
            kw["other_component"] = self.shared((call.get("share", i), "other"), lambda: self.data(call["other"]))
        if "keep_coords" in call:
            kw["keep_coords"] = call["keep_coords"]
        return kw

    def prepare(self, i, call):
        """Materialise the shared argument objects of a call without executing it (so that a
        snapshot taken before the call already contains them)."""
        if call["fn"] in ("diff", "interp", "min", "max", "cumsum", "derivative", "cumint", "pad"):
            da = self.data(call["da"])
            if isinstance(da, dict):
                self.shared((call.get("share", i), "vec"), lambda: da)
            self.call_kwargs(i, call)
        if call["fn"] == "vec2d":
            self.shared((call.get("share", i), "vec2d"), lambda: {self.nm(a): self.arrays[call["comps"][a]] for a in call["order"]})
            self.call_kwargs(i, call)

    # -- execution
    def run_call(self, i, call):
        fn = call["fn"]
        nm = self.nm
        g = self.grid
        if fn in ("diff", "interp", "min", "max", "cumsum", "derivative", "cumint"):
            da = self.data(call["da"])
            if isinstance(da, dict):
                da = self.shared((call.get("share", i), "vec"), lambda: da)
            return getattr(g, fn)(da, self.axis_arg(call), **self.call_kwargs(i, call))
        if fn in ("integrate", "average"):
            return getattr(g, fn)(self.data(call["da"]), self.axis_arg(call))
        if fn == "get_metric":
            ax = call["axes"]
            axes = nm(ax) if isinstance(ax, str) else (tuple(nm(a) for a in ax) if call.get("axis_spelling") == "tuple" else [nm(a) for a in ax])
            return g.get_metric(self.data(call["da"]), axes)
        if fn == "set_metrics":
            key = call["key"]
            k = nm(key) if isinstance(key, str) else tuple(nm(a) for a in key)
            vs = call["vars"]
            g.set_metrics(k, nm(vs) if isinstance(vs, str) else [nm(v) for v in vs], overwrite=bool(call.get("overwrite", False)))
            return {"registry": {"/".join(sorted(self.nm.back(a, "axis") for a in fs)): [self.nm.back(str(m.name)) for m in lst]
                                 for fs, lst in g._metrics.items()}}
        if fn == "pad":
            from xgcm.padding import pad

            da = self.data(call["da"])
            if isinstance(da, dict):
                da = self.shared((call.get("share", i), "vec"), lambda: da)
            kw = self.call_kwargs(i, call)
            return pad(da, g, boundary_width={nm(a): tuple(w) for a, w in call["widths"].items()}, **kw)
        if fn == "ufunc":
            sig = sig_string(call["sig"], nm)
            das = [self.arrays[a] for a in call["das"]]
            bw = {nm(d): tuple(w) for d, w in call["bw"].items()} if call.get("bw") else None
            widths = [tuple(call["bw"].get(d, (0, 0))) if call.get("bw") else (0, 0) for d, _ in call["sig"]["in"][0]]
            kw = {k: _axis_map(call[k], nm) for k in ("boundary", "fill_value") if call.get(k) is not None}
            for k in ("dask", "map_overlap"):
                if k in call:
                    kw[k] = call[k]
            axis = [tuple(nm(a) for a in arg) for arg in call["axis"]]
            if call.get("combine") == "outer":
                # two inputs on disjoint axes, combined into one output on all of them
                def outer(a, b):
                    return a[..., :, None, None] * b[..., None, :, :]

                if call.get("via") == "decorator":
                    from xgcm import as_grid_ufunc

                    return as_grid_ufunc(signature=sig)(outer)(g, *das, axis=axis, **kw)
                return g.apply_as_grid_ufunc(outer, *das, axis=axis, signature=sig, **kw)
            if call.get("via") == "decorator":
                from xgcm import as_grid_ufunc

                guf = as_grid_ufunc(signature=sig, boundary_width=bw)(window_sum(widths))
                return guf(g, *das, axis=axis, **kw)
            return g.apply_as_grid_ufunc(window_sum(widths), *das, axis=axis, signature=sig, boundary_width=bw, **kw)
        if fn == "vec2d":
            # the two-component convenience wrappers
            vec = self.shared((call.get("share", i), "vec2d"), lambda: {nm(a): self.arrays[call["comps"][a]] for a in call["order"]})
            res = getattr(g, call["op"] + "_2d_vector")(vec, **self.call_kwargs(i, call))
            return [res[nm(a)] for a in sorted(call["order"])]
        if fn == "interp_like":
            return g.interp_like(self.arrays[call["da"]], self.arrays[call["like"]])
        if fn == "gridop":
            # a pre-defined 1-D grid ufunc called directly
            from xgcm import gridops

            uf = getattr(gridops, f"{call['op']}_{call['frm']}_to_{call['to_pos']}")
            return uf(g, self.arrays[call["da"]], axis=[(nm(call["axis"]),)], **self.call_kwargs(i, call))
        if fn == "equivalent":
            from xgcm.grid_ufunc import _GridUFuncSignature

            a = _GridUFuncSignature.from_string(sig_string(call["a"], nm))
            b = _GridUFuncSignature.from_string(sig_string(call["b"], nm))
            return {"equivalent": bool(a.equivalent(b)), "printed": [self.unsig(str(a), call["a"]), self.unsig(str(b), call["b"])]}
        if fn == "axes":
            return {"axes": [self.nm.back(a, "axis") for a in g.axes],
                    "coords": {self.nm.back(a, "axis"): {p: self.nm.back(d) for p, d in ax.coords.items()} for a, ax in g.axes.items()}}
        if fn == "grid":
            # (re)construct a Grid from the scenario's grid description (C18: constructor arguments)
            from xgcm import Grid

            return {"axes": sorted(self.nm.back(a, "axis") for a in Grid(self.ds, **self.grid_kw).axes)}
        if fn == "transform":
            import xarray as xr

            da = self.arrays[call["da"]]
            t = call["target"]
            if isinstance(t, dict):
                target = xr.DataArray(np.asarray(t["values"], dtype=call.get("target_dtype", "float64")), dims=[nm(d) for d in t["dims"]])
            else:
                target = np.asarray(t, dtype=call.get("target_dtype", "float64"))
            kw = {"method": call.get("method", "linear")}
            if call.get("target_data") is not None:
                kw["target_data"] = self.arrays[call["target_data"]]
            if call.get("target_dim") is not None:
                kw["target_dim"] = nm(call["target_dim"])
            for k in ("mask_edges", "suffix", "bypass_checks"):
                if k in call:
                    kw[k] = call[k]
            return g.transform(da, nm(call["axis"]), target, **kw)
        raise ValueError(f"unknown call {fn}")

    def unsig(self, text, sig):
        """printed signature with names mapped back to tokens (by position, not by text)."""
        return None  # printing is covered by C15; names inside text are not mapped back textually

    # -- outcomes
    def outcome(self, value):
        import xarray as xr

        if isinstance(value, xr.DataArray):
            v = value.compute() if getattr(value, "chunks", None) else value
            arr = np.asarray(v.values, dtype=np.float64) if v.dtype.kind in "fiub" else np.asarray(v.values)
            return {
                "type": "DataArray",
                "dims": [self.nm.back(d) for d in v.dims],
                "shape": list(v.shape),
                "values": [x.hex() if x == x else "nan" for x in arr.ravel().tolist()] if arr.dtype.kind == "f" else arr.ravel().tolist(),
                "coords": sorted(str(self.nm.back(c)) for c in v.coords),
                "name": self.name_back(v.name),
            }
        if isinstance(value, (list, tuple)):
            return {"type": "seq", "items": [self.outcome(x) for x in value]}
        if isinstance(value, dict):
            return {"type": "dict", "value": jsonable(value)}
        return {"type": type(value).__name__}

    def name_back(self, name):
        if not isinstance(name, str):
            return name
        inv = self.nm.inv.get("ds", {})
        if name in inv:
            return inv[name]
        # a derived name <input name><suffix>: only the suffixes this scenario can produce are considered, so that
        # a hostile name which happens to be a prefix of another derived name cannot confuse the mapping
        suffixes = {"_transformed"} | {c["suffix"] for c in self.sc.get("calls", []) if isinstance(c.get("suffix"), str)}
        array_names = {self.nm(a.get("name")) for a in self.sc.get("arrays", {}).values() if a.get("name")}
        for actual in sorted(array_names, key=len, reverse=True):
            for suf in suffixes:
                if name == actual + suf:
                    return inv.get(actual, actual) + suf
        return name

    def execute(self, i, call):
        with warnings.catch_warnings():
            warnings.simplefilter("ignore")
            try:
                return {"ok": self.outcome(self.run_call(i, call))}
            except Exception as e:  # noqa: BLE001
                return {"raise": type(e).__name__}


def run_scenario(sc, names=None):
    """-> list of outcomes, one per call (or a single construction failure)."""
    with warnings.catch_warnings():
        warnings.simplefilter("ignore")
        try:
            env = Env(sc, names)
        except Exception as e:  # noqa: BLE001
            return [{"construct-raise": type(e).__name__}]
    return [env.execute(i, c) for i, c in enumerate(sc["calls"])]
