"""C06 - lazy (dask) execution equals in-memory execution for every chunking.

Differential oracle: the same call on the same data held in memory; plus a counting
scheduler that must not be invoked while the lazy result is being built."""
import numpy as np
from hypothesis import strategies as st

from checks import C01, C03, C04, C09
from vfw import build, gen
from vfw.core import Violation, must_return
from vfw.model import topology as T

PROPERTY = "C06"
SIZES = {"quick": 2400, "thorough": 40000}
RULE = (
    "Hypothesis draws a call of one of the kinds: stencil (C01's generator: diff/interp/min/max, 1-3 axes), cumsum (C09's "
    "generator incl. metric weighting and cumint), reduce (integrate/average/derivative with metrics), ufunc "
    "(apply_as_grid_ufunc with generated stencil widths on 1-2 axes; dask='parallelized' with chunked non-core dims, or "
    "map_overlap=True with every dim chunked), faces-scalar (C03's generator) and faces-vector (C04's generator) chunked over "
    "the face and extra dims; plus a composition of every chunkable dimension's length into chunks (size-1, uneven and single "
    "chunks occur) and a scheduler (synchronous / threaded). Oracle: (1) zero scheduler invocations while building and a "
    "dask-backed result, (2) compute() == eager result of the same call (dims, shape, coords, values rtol 1e-10), (3) "
    "NotImplementedError only when an operated dim is chunked and an inner/outer position is involved. Non-trivial = some "
    "dimension has >= 2 chunks; distinct = canonical JSON."
)
ASSUMPTIONS = [
    "thread interleavings are not controlled (the graphs are pure); scheduler choice can only matter through dask itself",
    "values bounded, compared with rtol 1e-10 / atol 1e-12*scale because chunked sums associate differently",
]


def compositions(L):
    """A composition of L as chunk sizes (construction: cut points)."""
    if L <= 1:
        return st.just([L])
    return st.lists(st.booleans(), min_size=L - 1, max_size=L - 1).map(_cuts_to_sizes)


def _cuts_to_sizes(cuts):
    sizes = [1]
    for c in cuts:
        if c:
            sizes.append(1)
        else:
            sizes[-1] += 1
    return sizes


@st.composite
def strategy_impl(draw, tier):
    kind = draw(st.sampled_from(["stencil", "stencil", "stencil-weighted", "cumsum", "reduce", "ufunc", "ufunc", "faces-scalar", "faces-vector"]))
    if kind == "stencil-weighted":
        # diff / interp / min / max with metric_weighted, optional keep_coords, on an input that may carry the dataset's coordinates
        sub = draw(C09.strategy_impl(tier))
        sub["wop"] = draw(st.sampled_from(["diff", "interp", "min", "max"]))
        sub["keep_coords"] = draw(st.sampled_from([None, True, False]))
        sub["carry_coords"] = draw(st.booleans())
        dims = {d: s for d, s in zip(sub["dims"], np.shape(sub["values"]))}
    elif kind == "stencil":
        sub = draw(C01.strategy_impl(tier))
        dims = {d: s for d, s in zip(sub["dims"], np.shape(sub["values"]))}
    elif kind == "cumsum":
        sub = draw(C09.strategy_impl(tier))
        dims = {d: s for d, s in zip(sub["dims"], np.shape(sub["values"]))}
    elif kind == "reduce":
        sub = draw(C09.strategy_impl(tier))
        sub["reduce"] = draw(st.sampled_from(["integrate", "average", "derivative"]))
        dims = {d: s for d, s in zip(sub["dims"], np.shape(sub["values"]))}
    elif kind == "ufunc":
        axes = draw(gen.layouts(max_axes=2, min_n=3, max_n=6, max_cells=150, allow_default_shifts=False))
        names = [a["name"] for a in axes]
        by = {a["name"]: a for a in axes}
        k = draw(st.integers(1, len(names)))
        opax = draw(st.permutations(names))[:k]
        pos = {n: draw(st.sampled_from([p for p in by[n]["positions"] if p in ("center", "left", "right")] or ["center"])) for n in opax}
        # mostly narrow stencils; now and then a pad as wide as, or wider than, the axis itself
        widths = {n: [draw(st.sampled_from([0, 1, 2, 0, 1, 2, by[n]["n"], by[n]["n"] + 2])), draw(st.integers(0, 2))] for n in opax}
        extra = draw(gen.extra_dims())
        dl = [gen.dim_name(n, pos[n]) for n in opax] + [e[0] for e in extra]
        sizes = {gen.dim_name(n, pos[n]): gen.pos_len(by[n]["n"], pos[n]) for n in opax}
        sizes.update({e[0]: e[1] for e in extra})
        order = draw(gen.permutations_of(dl))
        sub = {"axes": axes, "opax": list(opax), "pos": pos, "widths": widths, "extra": extra, "dims": order,
               "values": draw(gen.data_values([sizes[d] for d in order], elements=st.integers(-9, 9).map(float))),
               "mode": draw(st.sampled_from(["parallelized", "map_overlap", "map_overlap"])),
               "boundary": draw(st.sampled_from(["fill", "extend", "periodic"])), "fill": draw(st.sampled_from([0.0, 1.0, -3.0]))}
        dims = {d: sizes[d] for d in order}
    elif kind == "faces-scalar":
        sub = draw(C03.strategy_impl(tier))
        dims = {"face": sub["Kx"] * sub["Ky"]}
        dims.update({e[0]: e[1] for e in sub["extra"]})
    else:
        sub = draw(C04.strategy_impl(tier))
        dims = {"face": sub["Kx"] * sub["Ky"]}
        dims.update({e[0]: e[1] for e in sub["extra"]})
    chunks = {d: draw(compositions(L)) for d, L in dims.items()}
    if kind in ("stencil", "stencil-weighted", "cumsum") and len(sub["op_axes"]) >= 2:
        # multi-axis calls: the interesting patterns - one operated dimension in several chunks, the others whole - are drawn
        # on purpose now and then (independent compositions produce them only rarely)
        pattern = draw(st.sampled_from(["free", "free", "first-chunked", "last-chunked"]))
        if pattern != "free":
            opdims = [gen.dim_name(n, sub["data_pos"][n]) for n in sub["op_axes"]]
            split = opdims[0] if pattern == "first-chunked" else opdims[-1]
            for d in opdims:
                L = dims[d]
                if d == split and L >= 2:
                    k = draw(st.integers(1, L - 1))
                    chunks[d] = [k, L - k]
                elif d != split:
                    chunks[d] = [L]
    case = {"kind": kind, "sub": sub, "chunks": chunks, "scheduler": draw(st.sampled_from(["synchronous", "threads"])),
            # calls with two array inputs (vector component + partner, two-input ufuncs): both lazy, or only one of them
            "lazy_mask": draw(st.sampled_from([[True, True], [True, True], [True, False], [False, True]])),
            "two_inputs": draw(st.booleans()),
            # the boundary_width mapping of a ufunc call: entries listed in signature order or the other way round, axes that
            # need no padding named (with zeros) or left out
            "bw_reversed": draw(st.booleans()), "bw_omit_zero": draw(st.booleans()),
            # the second input of a two-input call may be chunked in its own way
            "chunks2": {d: draw(compositions(L)) for d, L in dims.items()} if draw(st.integers(0, 2)) == 0 else None}
    if kind == "faces-vector":
        # used only when the decomposition has no links at all (a simple grid: there every dimension may be chunked)
        N = sub["N"]
        case["spatial_chunks"] = {d: draw(compositions(N)) for d in ("xc", "xl", "yc", "yl")}
    return case


def strategy(tier):
    return strategy_impl(tier)


class Counter:
    def __init__(self):
        self.n = 0

    def __call__(self, dsk, keys, **kw):
        import dask

        self.n += 1
        return dask.get(dsk, keys, **kw)


def chunk(da, chunks):
    c = {d: tuple(v) for d, v in chunks.items() if d in da.dims}
    return da.chunk(c)


def lazy_vs_eager(call, inputs, chunks, scheduler, allowed_notimpl, what, ctx=None, eager_call=None, sibling=None, lazy_mask=None,
                  result_may_be_eager=False):
    """sibling: optional second call on the same inputs that differs only in the boundary treatment; its lazy result is
    computed *together with* the first one in a single graph (dask.compute(a, b)) and both must still equal their
    in-memory counterparts."""
    """call(*arrays) -> result.  inputs: list of DataArrays (in memory)."""
    import dask

    try:
        eager = (eager_call or call)(*inputs)
    except Exception as e:  # noqa: BLE001
        return None  # the eager call itself is refused: nothing to compare (counted by caller)
    # lazy_mask: which of the inputs are dask-backed (default: all of them) - lazy inputs are accepted wherever in-memory ones
    # are, so also next to in-memory ones
    per_input = chunks if isinstance(chunks, list) else [chunks] * len(inputs)   # a list gives every input its own chunking
    lazy_in = [chunk(x, per_input[i]) if (lazy_mask is None or lazy_mask[i]) else x for i, x in enumerate(inputs)]
    counter = Counter()
    try:
        with dask.config.set(scheduler=counter):
            lazy = call(*lazy_in)
    except NotImplementedError as e:
        if allowed_notimpl:
            return "refused"
        raise Violation(f"{what}: lazy input refused with NotImplementedError although no inner/outer position on a chunked operated "
                        "dimension is involved", message=str(e)[:200], chunks=chunks)
    except Exception as e:  # noqa: BLE001
        from vfw.core import innermost_xgcm_frame

        raise Violation(f"{what}: lazy input raised where the in-memory call returns", exception=type(e).__name__, message=str(e)[:300],
                        frame=innermost_xgcm_frame(e), chunks=chunks)
    if allowed_notimpl == "must":
        raise Violation(f"{what}: data chunked along the operated axis with an inner / outer position involved was answered instead of "
                        "refused with NotImplementedError", chunks=chunks)
    if counter.n != 0:
        raise Violation(f"{what}: building the lazy result triggered {counter.n} computation(s)", chunks=chunks)
    if sibling is not None:
        try:
            eager2 = sibling(*inputs)
            with dask.config.set(scheduler=counter):
                lazy2 = sibling(*lazy_in)
        except Exception:  # noqa: BLE001 - the sibling is only an extra probe
            eager2 = lazy2 = None
        if lazy2 is not None and not isinstance(lazy, (tuple, list)) and dask.is_dask_collection(lazy.data) and dask.is_dask_collection(lazy2.data):
            try:
                with dask.config.set(scheduler=scheduler):
                    c1, c2 = dask.compute(lazy, lazy2)
            except Exception as e3:  # noqa: BLE001
                raise Violation(f"{what}: computing two lazy results together raised", exception=type(e3).__name__, message=str(e3)[:200], chunks=chunks)
            for nm_, c, e in (("first", c1, eager), ("second", c2, eager2)):
                ev, cv = np.asarray(e.values), np.asarray(c.values)
                scale = max(1.0, float(np.nanmax(np.abs(ev), initial=0.0))) if ev.size else 1.0
                if cv.shape != ev.shape or not np.allclose(cv, ev, rtol=1e-10, atol=1e-12 * scale, equal_nan=True):
                    raise Violation(f"{what}: two lazy results that differ only in the boundary treatment, computed in one graph, do not both "
                                    "equal their in-memory results", which=nm_, chunks=chunks)
    outs_l = lazy if isinstance(lazy, (tuple, list)) else [lazy]
    outs_e = eager if isinstance(eager, (tuple, list)) else [eager]
    for l, e in zip(outs_l, outs_e):
        if not dask.is_dask_collection(l.data) and not result_may_be_eager:
            raise Violation(f"{what}: result of a lazy input is not dask-backed", chunks=chunks)
        try:
            with dask.config.set(scheduler=scheduler):
                c = l.compute()
        except Exception as e2:  # noqa: BLE001 - the in-memory call returned, so the lazy result must be computable
            raise Violation(f"{what}: computing the lazy result raised where the in-memory call returns", exception=type(e2).__name__,
                            message=str(e2)[:300], chunks=chunks)
        if c.dims != e.dims:
            raise Violation(f"{what}: dims differ between lazy and in-memory execution", lazy=list(c.dims), eager=list(e.dims))
        if c.shape != e.shape:
            raise Violation(f"{what}: shape differs between lazy and in-memory execution", lazy=list(c.shape), eager=list(e.shape), chunks=chunks)
        if set(map(str, c.coords)) != set(map(str, e.coords)):
            raise Violation(f"{what}: coordinates differ between lazy and in-memory execution", lazy=sorted(map(str, c.coords)), eager=sorted(map(str, e.coords)))
        for name in e.coords:
            if not np.array_equal(np.asarray(c.coords[name].values), np.asarray(e.coords[name].values), equal_nan=True):
                raise Violation(f"{what}: coordinate values differ between lazy and in-memory execution", coord=str(name))
        ev, cv = np.asarray(e.values), np.asarray(c.values)
        scale = max(1.0, float(np.nanmax(np.abs(ev), initial=0.0))) if ev.size else 1.0
        if not np.allclose(cv, ev, rtol=1e-10, atol=1e-12 * scale, equal_nan=True):
            bad = np.argwhere(~np.isclose(cv, ev, rtol=1e-10, atol=1e-12 * scale, equal_nan=True))
            i0 = tuple(int(x) for x in bad[0])
            raise Violation(f"{what}: values differ between lazy and in-memory execution", index=list(i0), lazy=float(cv[i0]), eager=float(ev[i0]), chunks=chunks)
    return "ok"


def nchunked(chunks):
    return any(len(v) > 1 for v in chunks.values())


def check(case, ctx):
    kind, sub, chunks = case["kind"], case["sub"], case["chunks"]
    classes = [f"kind:{kind}", f"sched:{case['scheduler']}"]
    if any(len(v) > 1 and len(set(v)) > 1 for v in chunks.values()):
        classes.append("uneven")
    if any(len(v) > 1 and (v[0] == 1 or v[-1] == 1) for v in chunks.values()):
        classes.append("size1-at-end")
    if kind == "faces-vector":
        sub = dict(sub, _spatial_chunks=case.get("spatial_chunks"), _lazy_mask=case.get("lazy_mask"))
    if kind == "ufunc":
        sub = dict(sub, _lazy_mask=case.get("lazy_mask"), _two_inputs=case.get("two_inputs"), _chunks2=case.get("chunks2"),
                   _bw_reversed=case.get("bw_reversed"), _bw_omit_zero=case.get("bw_omit_zero"))
    res = RUNNERS[kind](sub, chunks, case["scheduler"], classes, ctx)
    if res is None:
        classes.append("eager-refused")
    elif res == "refused":
        classes.append("refused-notimplemented")
    return {"nontrivial": bool(nchunked(chunks) and res == "ok"), "classes": classes}


# ------------------------------------------------------------------ kinds
def simple_grid(sub, with_metrics=False):
    import xarray as xr

    axes = sub["axes"]
    shape = np.shape(sub["values"])
    ds = build.make_dataset(axes, [(d, s) for d, s in zip(sub["dims"], shape) if d.startswith("e")])
    kw = {}
    if with_metrics:
        for d, vals in sub["metrics"].items():
            ds["m_" + d] = xr.DataArray(np.asarray(vals, dtype=np.float64), dims=[d])
        kw["metrics"] = {(a["name"],): ["m_" + gen.dim_name(a["name"], p) for p in a["positions"]] for a in axes}
    return must_return("Grid construction", build.make_grid, ds, axes, **kw, **build.grid_kwargs(sub["grid"]))


def operated_inner_outer_chunked(sub, chunks, targets):
    by = {a["name"]: a for a in sub["axes"]}
    for n in sub["op_axes"]:
        frm = sub["data_pos"][n]
        to = targets[n]
        d = gen.dim_name(n, frm)
        if len(chunks.get(d, [1])) > 1 and (frm in ("inner", "outer") or to in ("inner", "outer")):
            return True
    return False


def targets_of(sub):
    from vfw.model import stencil as M

    by = {a["name"]: a for a in sub["axes"]}
    return {n: (sub["to"][n] if sub["to"] is not None else M.default_target(by[n]["positions"], sub["data_pos"][n], by[n]["default_shifts"]))
            for n in sub["op_axes"]}


def run_stencil(sub, chunks, scheduler, classes, ctx):
    grid = simple_grid(sub)
    da = build.data_array(sub["values"], sub["dims"], name="phi")
    if sub.get("carry_coords"):
        ds = build.make_dataset(sub["axes"], [(d, s) for d, s in zip(sub["dims"], np.shape(sub["values"])) if d.startswith("e")])
        da = da.assign_coords({d: ds[d] for d in da.dims if d in ds.coords})
        classes.append("input-carries-coords")
    kw = C01.call_kwargs(sub, sub["to"])
    ax = C01.spell_axis(sub["op_axes"], sub["axis_spelling"])
    fn = getattr(grid, sub["op"])
    targets = targets_of(sub)
    core_chunked = any(len(chunks.get(gen.dim_name(n, sub["data_pos"][n]), [1])) > 1 for n in sub["op_axes"])
    classes.append("core-chunked" if core_chunked else "broadcast-chunked-only")
    kw2 = dict(kw, boundary="fill", fill_value=123.0) if kw.get("boundary") != "fill" or kw.get("fill_value") != 123.0 else dict(kw, boundary="extend")
    return lazy_vs_eager(lambda x: fn(x, ax, **kw), [da], chunks, scheduler, "must" if operated_inner_outer_chunked(sub, chunks, targets) else False,
                         f"Grid.{sub['op']}", sibling=lambda x: fn(x, ax, **kw2))


def run_wstencil(sub, chunks, scheduler, classes, ctx):
    grid = simple_grid(sub, with_metrics=True)
    da = build.data_array(sub["values"], sub["dims"], name="phi")
    if sub.get("carry_coords"):
        shape = np.shape(sub["values"])
        ds = build.make_dataset(sub["axes"], [(d, s) for d, s in zip(sub["dims"], shape) if d.startswith("e")])
        da = da.assign_coords({d: ds[d] for d in da.dims if d in ds.coords})
        classes.append("input-carries-coords")
    targets = targets_of(sub)
    kw = dict(C09.bkwargs(sub), **C09.to_kw(sub, targets, sub["to"] is not None))
    if sub.get("keep_coords") is not None:
        kw["keep_coords"] = sub["keep_coords"]
    ax = C09.spell_axis(sub["op_axes"], sub["axis_spelling"])
    fn = getattr(grid, sub["wop"])
    mw = {n: (n,) for n in sub["op_axes"]}
    classes.append(f"weighted:{sub['wop']}")
    return lazy_vs_eager(lambda x: fn(x, ax, metric_weighted=mw, **kw), [da], chunks, scheduler,
                         operated_inner_outer_chunked(sub, chunks, targets), f"Grid.{sub['wop']}(metric_weighted)")


def run_cumsum(sub, chunks, scheduler, classes, ctx):
    grid = simple_grid(sub, with_metrics=True)
    da = build.data_array(sub["values"], sub["dims"], name="phi")
    targets = targets_of(sub)
    kw = dict(C09.bkwargs(sub), **C09.to_kw(sub, targets, sub["to"] is not None))
    ax = C09.spell_axis(sub["op_axes"], sub["axis_spelling"])
    mode = sub["mode"]
    classes.append(f"cumsum:{mode}")
    if mode == "plain":
        call = lambda x: grid.cumsum(x, ax, **kw)  # noqa: E731
    elif mode == "weighted":
        call = lambda x: grid.cumsum(x, ax, metric_weighted={n: (n,) for n in sub["op_axes"]}, **kw)  # noqa: E731
    else:
        call = lambda x: grid.cumint(x, ax, **kw)  # noqa: E731
    # cumsum never goes through map_overlap: no refusal is allowed
    return lazy_vs_eager(call, [da], chunks, scheduler, False, f"Grid.cumsum/{mode}")


def run_reduce(sub, chunks, scheduler, classes, ctx):
    grid = simple_grid(sub, with_metrics=True)
    da = build.data_array(sub["values"], sub["dims"], name="phi")
    targets = targets_of(sub)
    red = sub["reduce"]
    classes.append(f"reduce:{red}")
    axl = list(sub["op_axes"])
    if red == "integrate":
        return lazy_vs_eager(lambda x: grid.integrate(x, axl), [da], chunks, scheduler, False, "Grid.integrate")
    if red == "average":
        return lazy_vs_eager(lambda x: grid.average(x, axl), [da], chunks, scheduler, False, "Grid.average")
    n = axl[0]
    one = dict(sub, op_axes=[n])
    kw = dict(C09.bkwargs(sub), to=targets[n])
    return lazy_vs_eager(lambda x: grid.derivative(x, n, **kw), [da], chunks, scheduler,
                         operated_inner_outer_chunked(one, chunks, targets), "Grid.derivative")


def window_sum(widths_in_order):
    """User function: sliding-window sum over the padded trailing axes (works on numpy and dask arrays)."""

    def f(a):
        out = a
        nd = len(widths_in_order)
        for j, (lo, hi) in enumerate(widths_in_order):
            axis = a.ndim - nd + j
            L = out.shape[axis] - lo - hi
            acc = None
            for k in range(lo + hi + 1):
                sl = [slice(None)] * out.ndim
                sl[axis] = slice(k, k + L)
                piece = out[tuple(sl)]
                acc = piece if acc is None else acc + piece
            out = acc
        return out

    return f


def run_ufunc(sub, chunks, scheduler, classes, ctx):
    axes = sub["axes"]
    ds = build.make_dataset(axes, [(e[0], e[1]) for e in sub["extra"]])
    grid = must_return("Grid construction", build.make_grid, ds, axes, periodic=False)
    da = build.data_array(sub["values"], sub["dims"], name="phi")
    opax = sub["opax"]
    dummies = ["a", "b"][: len(opax)]
    sig = "(" + ",".join(f"{d}:{sub['pos'][n]}" for d, n in zip(dummies, opax)) + ")"
    sig = f"{sig}->{sig}"
    bw = {d: tuple(sub["widths"][n]) for d, n in zip(dummies, opax)}
    if sub.get("_bw_omit_zero") and any(w != (0, 0) for w in bw.values()):
        bw = {d: w for d, w in bw.items() if w != (0, 0)}
    if sub.get("_bw_reversed"):
        bw = dict(reversed(list(bw.items())))
    f = window_sum([tuple(sub["widths"][n]) for n in opax])
    mode = sub["mode"]
    classes.append(f"ufunc:{mode}")
    core = [gen.dim_name(n, sub["pos"][n]) for n in opax]
    ch = dict(chunks)
    wider = any(max(sub["widths"][n]) > sum(ch[d]) for d, n in zip(core, opax))
    if wider and sub["boundary"] == "periodic":
        classes.append("periodic-pad-wider-than-axis")   # (was finding C06-lazy-periodic-pad-wider-than-axis, repaired)
    if mode == "parallelized":
        for d in core:  # xarray itself refuses chunked core dims with dask='parallelized'
            ch[d] = [sum(ch[d])]
        kw = dict(dask="parallelized")
    else:
        kw = dict(dask="allowed", map_overlap=True)
        small = any(min(ch[d]) < max(sub["widths"][n]) for d, n in zip(core, opax) if len(ch[d]) > 1)
        if small:
            classes.append("core-chunk<width")
            if ctx is not None and ctx.known("C06-map-overlap-chunk-smaller-than-width"):
                ctx.count_excluded("C06-map-overlap-chunk-smaller-than-width")
                return "excluded"
    # with several padded axes the fill value is spelled per axis, each axis its own (differential: nothing else is needed)
    fv = sub["fill"] if len(opax) < 2 else {n: float(sub["fill"]) + 2.5 * i for i, n in enumerate(opax)}
    call = lambda x: grid.apply_as_grid_ufunc(f, x, axis=[tuple(opax)], signature=sig, boundary_width=bw,  # noqa: E731
                                              boundary=sub["boundary"], fill_value=fv, **kw)
    # the in-memory reference is the same ufunc applied without dask options
    eager = lambda x: grid.apply_as_grid_ufunc(f, x, axis=[tuple(opax)], signature=sig, boundary_width=bw,  # noqa: E731
                                               boundary=sub["boundary"], fill_value=fv)
    if sub.get("_two_inputs"):
        # the same stencil on two inputs, added up; with dask='parallelized' either input may be the only lazy one
        mask = sub.get("_lazy_mask") or [True, True]
        ch2 = dict(sub.get("_chunks2") or ch)
        if mode == "parallelized":
            for d in core:
                ch2[d] = [sum(ch2[d])]
        else:
            small2 = any(min(ch2[d]) < max(sub["widths"][n]) for d, n in zip(core, opax) if len(ch2[d]) > 1)
            if small2 and ctx is not None and ctx.known("C06-map-overlap-chunk-smaller-than-width"):
                ctx.count_excluded("C06-map-overlap-chunk-smaller-than-width")
                return "excluded"
            # open finding: map_overlap declares the chunks of the result from the first argument alone and hands the raw
            # arrays to dask.array.map_overlap - a second input that is chunked differently (along any dimension), or held
            # in memory, is refused
            differ = mask != [True, True] or any(list(ch2[d]) != list(ch[d]) for d in ch)
            if differ:
                classes.append("map-overlap-inputs-chunked-differently")
                if ctx is not None and ctx.known("C06-map-overlap-inputs-chunked-differently"):
                    ctx.count_excluded("C06-map-overlap-inputs-chunked-differently")
                    return "excluded"
        classes.append("ufunc-two-inputs" + ("" if mask == [True, True] else "-one-lazy"))
        side = sig.split("->")[0]
        sig2 = f"{side},{side}->{side}"
        f2 = lambda a, b: f(a) + f(b)  # noqa: E731
        da2 = (da * 2.0 + 1.0).rename("psi")
        call2 = lambda x, y: grid.apply_as_grid_ufunc(f2, x, y, axis=[tuple(opax)] * 2, signature=sig2, boundary_width=bw,  # noqa: E731
                                                      boundary=sub["boundary"], fill_value=fv, **kw)
        eager2 = lambda x, y: grid.apply_as_grid_ufunc(f2, x, y, axis=[tuple(opax)] * 2, signature=sig2, boundary_width=bw,  # noqa: E731
                                                       boundary=sub["boundary"], fill_value=fv)
        return lazy_vs_eager(call2, [da, da2], [ch, ch2], scheduler, False, f"apply_as_grid_ufunc[{mode}, two inputs]", eager_call=eager2, lazy_mask=mask)
    other = "extend" if sub["boundary"] != "extend" else "periodic"
    sib = lambda x: grid.apply_as_grid_ufunc(f, x, axis=[tuple(opax)], signature=sig, boundary_width=bw, boundary=other, **kw)  # noqa: E731
    return lazy_vs_eager(call, [da], ch, scheduler, False, f"apply_as_grid_ufunc[{mode}]", eager_call=eager, sibling=sib)


def run_faces_scalar(sub, chunks, scheduler, classes, ctx):
    import xarray as xr
    from xgcm import Grid

    Kx, Ky, N = sub["Kx"], sub["Ky"], sub["N"]
    nf = Kx * Ky
    orients = T.assign_orientations(Kx, Ky, sub["px"], sub["py"], sub["prefs"])
    table = T.build_table(Kx, Ky, sub["px"], sub["py"], orients)
    G = np.asarray(sub["values"], dtype=np.float64)
    A = T.cut(G, Kx, Ky, N, orients)
    ds, gc = C03.make_ds(N, nf, sub["extra"])
    has_links = any(l is not None for per in table.values() for sides in per.values() for l in sides)
    fc = gen.table_to_xgcm(C03.table_json(table)) if has_links else None
    bnd, fil = sub["boundary"], sub["fill"]
    if sub.get("per_axis"):
        a_, o_ = "XY"[sub["axis"]], "XY"[1 - sub["axis"]]
        bnd = {a_: sub["boundary"], o_: sub["boundary"] if sub["other_rule"] == "same" else sub["other_rule"]}
        fil = {a_: sub["fill"], o_: sub["other_fill"]}
    grid = must_return("Grid construction", Grid, ds, coords=gc, face_connections=fc, autoparse_metadata=False, periodic=False,
                       boundary=bnd, fill_value=fil)
    base = ["face"] + [e[0] for e in sub["extra"]] + ["yc", "xc"]
    da = xr.DataArray(A, dims=base).transpose(*sub["dims"])
    fn = getattr(grid, sub["op"])
    return lazy_vs_eager(lambda x: fn(x, "XY"[sub["axis"]], to=sub["to"]), [da], chunks, scheduler, False, f"face-connected Grid.{sub['op']}")


def run_faces_vector(sub, chunks, scheduler, classes, ctx):
    import xarray as xr
    from xgcm import Grid

    Kx, Ky, N = sub["Kx"], sub["Ky"], sub["N"]
    nf = Kx * Ky
    orients = T.assign_orientations(Kx, Ky, sub["px"], sub["py"], sub["prefs"], require=C04.nonreversed)
    table = T.build_table(Kx, Ky, sub["px"], sub["py"], orients, require=C04.nonreversed)
    U = np.array(sub["U"], dtype=np.float64)
    V = np.array(sub["V"], dtype=np.float64)
    if sub["px"]:
        U[..., Kx * N] = U[..., 0]
    if sub["py"]:
        V[..., Ky * N, :] = V[..., 0, :]
    u, v = T.cut_vector(U, V, Kx, Ky, N, orients)
    coords = {"xc": ("xc", np.arange(N) + 0.5), "xl": ("xl", np.arange(N) * 1.0), "yc": ("yc", np.arange(N) + 0.5),
              "yl": ("yl", np.arange(N) * 1.0), "face": ("face", np.arange(nf))}
    for name, size in sub["extra"]:
        coords[name] = (name, np.arange(size) * 1.0)
    ds = xr.Dataset(coords=coords)
    has_links = any(l is not None for per in table.values() for sides in per.values() for l in sides)
    fc = gen.table_to_xgcm(C03.table_json(table)) if has_links else None
    classes.append("vector-linked" if has_links else "vector-simple")
    if not has_links and sub.get("_spatial_chunks"):
        chunks = dict(chunks, **sub["_spatial_chunks"])
        if any(len(v) > 1 for v in sub["_spatial_chunks"].values()):
            classes.append("vector-simple-core-chunked")
    grid = must_return("Grid construction", Grid, ds, coords={"X": {"center": "xc", "left": "xl"}, "Y": {"center": "yc", "left": "yl"}},
                       face_connections=fc, autoparse_metadata=False, periodic=False, boundary=sub["boundary"], fill_value=sub["fill"])
    lab = ["face"] + [e[0] for e in sub["extra"]]
    uo = [{"Y": "yc", "X": "xl"}.get(l, l) for l in sub["order"]]
    vo = [{"Y": "yl", "X": "xc"}.get(l, l) for l in sub["order"]]
    uda = xr.DataArray(u, dims=lab + ["yc", "xl"]).transpose(*uo)
    vda = xr.DataArray(v, dims=lab + ["yl", "xc"]).transpose(*vo)
    fn = getattr(grid, sub["op"])
    mask = sub.get("_lazy_mask") or [True, True]
    if mask != [True, True]:
        classes.append("vector-one-component-lazy")
    # (a component in memory whose partner alone is lazy may legitimately come back in memory when no halo is taken from the partner)
    r1 = lazy_vs_eager(lambda a, b: fn({"X": a}, "X", other_component={"Y": b}), [uda, vda], chunks, scheduler, False,
                       f"face-connected vector Grid.{sub['op']} (X component)", lazy_mask=mask, result_may_be_eager=not mask[0])
    r2 = lazy_vs_eager(lambda a, b: fn({"Y": b}, "Y", other_component={"X": a}), [uda, vda], chunks, scheduler, False,
                       f"face-connected vector Grid.{sub['op']} (Y component)", lazy_mask=mask, result_may_be_eager=not mask[1])
    return "ok" if (r1 == "ok" and r2 == "ok") else (r1 or r2)


RUNNERS = {"stencil": run_stencil, "stencil-weighted": run_wstencil, "cumsum": run_cumsum, "reduce": run_reduce, "ufunc": run_ufunc,
           "faces-scalar": run_faces_scalar, "faces-vector": run_faces_vector}
