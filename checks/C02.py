"""C02 - boundary rule resolution and padding widths are exactly as specified.

Oracle: (1) a resolver written from the statement gives the rule / fill value in force per
axis; (2) an index-level padding model; (3) re-spelling relation; (4) the same resolution seen
through Grid.interp."""
import numpy as np
from hypothesis import strategies as st

from vfw import build, gen
from vfw.core import Violation, must_return
from vfw.model import stencil as M

PROPERTY = "C02"
SIZES = {"quick": 6400, "thorough": 160000}
RULE = (
    "Hypothesis draws constructor arguments (periodic as bool / list naming a subset / total dict; boundary "
    "and fill_value as None / scalar / total mapping / partial mapping), per-call arguments in the same "
    "spellings, a boundary_width mapping naming a non-empty subset of axes with asymmetric widths 0..n, and "
    "a float64 array on drawn positions with extra dims in a drawn order. Oracle: resolver + index-level "
    "padding model, re-spelling relation, Grid.interp cross-check. Non-trivial = some width > 0 AND (two "
    "axes resolve to different rule/fill OR a partial mapping / periodic list takes part); distinct = "
    "canonical JSON of the case."
)
ASSUMPTIONS = [
    "cells that are new along two axes are compared except when both axes use 'fill' with different "
    "fill values (the only combination whose corner value depends on application order)",
    "None inside a mapping and non-bool periodic values are undocumented and not generated",
]


@st.composite
def strategy_impl(draw, tier):
    max_n = 5 if tier == "quick" else 8
    axes = draw(gen.layouts(max_n=max_n, max_cells=250 if tier == "quick" else 600, allow_default_shifts=False, big_n=True))
    names = [a["name"] for a in axes]
    by_name = {a["name"]: a for a in axes}
    padded = draw(st.lists(st.sampled_from(names), min_size=1, max_size=len(names), unique=True))
    carried = [n for n in names if n not in padded and draw(st.booleans())]
    data_pos = {n: draw(st.sampled_from(by_name[n]["positions"])) for n in padded + carried}
    widths = {}
    for n in padded:
        L = gen.pos_len(by_name[n]["n"], data_pos[n])
        wmax = max(L, 0)
        # widths up to the axis length as a rule; now and then wider than the axis (several periods / several copies of the edge)
        wide = draw(st.integers(0, 3)) == 0
        widths[n] = [draw(st.integers(0, 2 * wmax + 1 if wide else wmax)), draw(st.integers(0, 2 * wmax + 1 if wide else wmax))]
    extra = draw(gen.extra_dims())
    dims = [gen.dim_name(n, data_pos[n]) for n in padded + carried] + [e[0] for e in extra]
    sizes = {gen.dim_name(n, data_pos[n]): gen.pos_len(by_name[n]["n"], data_pos[n]) for n in padded + carried}
    sizes.update({e[0]: e[1] for e in extra})
    order = draw(gen.permutations_of(dims))
    # padding copies values: missing-data markers and infinities are data like any other ("with all data values")
    special = draw(st.integers(0, 3)) == 0
    values = draw(gen.data_values([sizes[d] for d in order], elements=st.one_of(gen.nice, st.sampled_from([float("nan"), float("inf"), float("-inf")]))
                                  if special else None))
    return {
        "axes": axes,
        "grid": draw(gen.grid_settings(names, exotic=True)),
        "call_boundary": draw(gen.boundary_spelling(names)),
        "call_fill": draw(gen.fill_spelling(names)),
        "widths": widths,
        "data_pos": data_pos,
        "dims": order,
        "values": values,
        "reverse_mappings": draw(st.booleans()),
        "decoy_first": draw(st.booleans()),
        "layout": draw(st.sampled_from(["C", "C", "F", "view", "neg"])),
        "arg_types": draw(st.sampled_from(["plain", "plain", "plain", "numpy", "odict", "0d"])),
    }


def strategy(tier):
    return strategy_impl(tier)


def table_cases():
    """The finite table behind the resolution rule, in full: 5 positions x 3 rules x 7 sources of rule / fill value x 4 width
    pairs, on one and on two padded axes (the second axis always under another rule and fill value)."""
    out = []
    for pos in ("center", "left", "right", "inner", "outer"):
        n = 4
        ax = {"name": "X", "n": n, "positions": ["center"] + ([pos] if pos != "center" else []), "default_shifts": None}
        ay = {"name": "Y", "n": 3, "positions": ["center"], "default_shifts": None}
        Lx = gen.pos_len(n, pos)
        vx = [[float(10 * j + i) for i in range(Lx)] for j in range(3)]
        for rule in M.RULES:
            for label, grid, cb, cf in gen.rule_sources(rule):
                for w in ([1, 0], [0, 2], [2, 1], [Lx, Lx], [1, Lx + 2], [Lx + 1, 2], [2 * Lx + 1, Lx + 1]):
                    out.append({"axes": [ax], "grid": grid, "call_boundary": cb, "call_fill": cf, "widths": {"X": w}, "data_pos": {"X": pos},
                                "dims": ["e0", gen.dim_name("X", pos)], "values": vx, "reverse_mappings": False, "decoy_first": False,
                                "layout": "C", "arg_types": "plain"})
                # two axes: the per-call choice names X only, Y keeps the grid-level settings
                g2 = dict(grid, boundary=({"X": grid["boundary"], "Y": "extend"} if grid["boundary"] else {"Y": "extend"}),
                          fill_value=({"X": grid["fill_value"], "Y": 4.0} if grid["fill_value"] is not None else {"Y": 4.0}))
                out.append({"axes": [ax, ay], "grid": g2, "call_boundary": None if cb is None else {"X": cb}, "call_fill": None if cf is None else {"X": cf},
                            "widths": {"X": [1, 2], "Y": [2, 1]}, "data_pos": {"X": pos, "Y": "center"},
                            "dims": [gen.dim_name("Y", "center"), gen.dim_name("X", pos)], "values": vx, "reverse_mappings": False,
                            "decoy_first": False, "layout": "C", "arg_types": "plain"})
    return out


def exhaustive_part(tier, seed):
    from vfw.runner import enumerate_cases

    cases = table_cases()
    return {"result": enumerate_cases(PROPERTY, cases), "extra": {"enumerated_table_cells": len(cases)}}


def model_pad(a, dims, case, by_name, rules, fills):
    """Returns padded array and a mask of comparable cells."""
    a = np.asarray(a)
    new_axes_count = np.zeros(a.shape, dtype=int)
    fill_axes = []
    for n, (lo, hi) in case["widths"].items():
        k = dims.index(gen.dim_name(n, case["data_pos"][n]))
        a = M.pad(a, k, lo, hi, rules[n], fills[n])
        isnew = np.zeros(a.shape[k], dtype=int)
        isnew[:lo] = 1
        if hi:
            isnew[-hi:] = 1
        shape = [1] * a.ndim
        shape[k] = a.shape[k]
        new_axes_count = M.pad(new_axes_count, k, lo, hi, "extend", 0) + isnew.reshape(shape)
        if rules[n] == "fill":
            fill_axes.append((n, k, isnew.reshape(shape)))
    comparable = np.ones(a.shape, dtype=bool)
    for i in range(len(fill_axes)):
        for j in range(i + 1, len(fill_axes)):
            (n1, _, m1), (n2, _, m2) = fill_axes[i], fill_axes[j]
            if fills[n1] != fills[n2]:
                comparable &= ~((m1 + m2) == 2)
    return a, comparable


def by_name_values(da, dims):
    return np.asarray(da.transpose(*dims).values)


def kind(v, names):
    if v is None:
        return "none"
    if isinstance(v, dict):
        return "total" if set(v) >= set(names) else "partial"
    if isinstance(v, list):
        return "list"
    return "scalar"


def periodic_list_omits_axis_without_grid_boundary(case, names):
    """Input class of the open finding C02-periodic-list."""
    p, b = case["grid"]["periodic"], case["grid"]["boundary"]
    if not isinstance(p, list):
        return False
    for n in names:
        if n not in p:
            named = (b.get(n) is not None) if isinstance(b, dict) else (b is not None)
            if not named:
                return True
    return False


def check(case, ctx):
    from xgcm.padding import pad

    axes = case["axes"]
    names = [a["name"] for a in axes]
    if ctx.known("C02-periodic-list") and periodic_list_omits_axis_without_grid_boundary(case, names):
        ctx.count_excluded("C02-periodic-list")
        return {"nontrivial": False, "classes": ["excluded:C02-periodic-list"]}
    by_name = {a["name"]: a for a in axes}
    shape = np.shape(case["values"])
    ds = build.make_dataset(axes, [(d, s) for d, s in zip(case["dims"], shape) if d.startswith("e")])
    grid = must_return("Grid construction", build.make_grid, ds, axes, **build.grid_kwargs(case["grid"]))
    g_rules, g_fills = M.grid_level_rule(names, case["grid"]["periodic"], case["grid"]["boundary"], case["grid"]["fill_value"])
    # (1) grid-level resolution is observable on the axes
    for n in names:
        if grid.axes[n].boundary != g_rules[n]:
            raise Violation("grid-level boundary rule resolution", axis=n, got=grid.axes[n].boundary, expected=g_rules[n], grid=case["grid"])
        if float(grid.axes[n].fill_value) != float(g_fills[n]):
            raise Violation("grid-level fill value resolution", axis=n, got=grid.axes[n].fill_value, expected=g_fills[n], grid=case["grid"])
    rules, fills = M.rule_in_force(names, g_rules, g_fills, case["call_boundary"], case["call_fill"])

    # (2) padding model
    dims = list(case["dims"])
    exp, comparable = model_pad(case["values"], dims, case, by_name, rules, fills)
    da = build.data_array(case["values"], dims, layout=case.get("layout", "C"))
    bw = {n: tuple(w) for n, w in case["widths"].items()}
    if case.get("decoy_first"):
        # another Grid on the same dataset with other settings is built and used first: nothing of it may leak
        decoy = build.make_grid(ds, axes, periodic=True, boundary="extend", fill_value=-55.0)
        pad(da, decoy, boundary_width=dict(bw), boundary="fill", fill_value=66.0)
        pad(da, decoy, boundary_width=dict(bw))

    rev = bool(case.get("reverse_mappings"))

    def do_pad(boundary, fill):
        kw = {}
        if boundary is not None:
            kw["boundary"] = build.copy_arg(boundary, rev)
        if fill is not None:
            kw["fill_value"] = build.copy_arg(fill, rev)
        st_ = case.get("arg_types", "plain")
        if st_ != "plain":
            kw = {k: build.retype(v, st_) for k, v in kw.items()}
            return pad(da, grid, boundary_width=build.retype({n: list(w) for n, w in bw.items()}, st_), **kw)
        return pad(da, grid, boundary_width=dict(bw), **kw)

    # a call that names nothing per call, before and after the one with per-call arguments: the grid-level settings
    # are in force both times (per-call choices must not stick to the Grid)
    exp0, comparable0 = model_pad(case["values"], dims, case, by_name, g_rules, g_fills)
    got0 = must_return("pad (grid-level settings only)", do_pad, None, None)
    compare(got0, dims, exp0, comparable0, "pad with grid-level settings only")
    got = must_return("pad", do_pad, case["call_boundary"], case["call_fill"])
    compare(got, dims, exp, comparable, "pad vs index-level model")
    got0b = must_return("pad (grid-level settings only, after a call with per-call arguments)", do_pad, None, None)
    compare(got0b, dims, exp0, comparable0, "pad with grid-level settings only, issued after a call with per-call arguments")

    # the very same input object updated in place between two calls: the halo follows the new values
    newvals = (3 - 2 * np.asarray(case["values"], dtype=np.float64)).tolist()
    keep = da.values.copy()
    da.values[...] = np.asarray(newvals)
    exp_u, comparable_u = model_pad(newvals, dims, case, by_name, rules, fills)
    got_u = must_return("pad (input updated in place)", do_pad, case["call_boundary"], case["call_fill"])
    compare(got_u, dims, exp_u, comparable_u, "pad after the input object was updated in place")
    da.values[...] = keep

    # (3) re-spellings of the same choice
    total_b = {n: rules[n] for n in names}
    total_f = {n: fills[n] for n in names}
    got2 = must_return("pad (total mappings)", do_pad, total_b, total_f)
    compare(got2, dims, exp, comparable, "pad with the resolved choice spelled as total mappings")
    if len(set(total_b.values())) == 1 and len(set(total_f.values())) == 1:
        got3 = must_return("pad (scalars)", do_pad, rules[names[0]], fills[names[0]])
        compare(got3, dims, exp, comparable, "pad with the resolved choice spelled as scalars")
    if len(names) > 1:
        # partial mapping naming only the axes whose call-level choice differs from the grid level
        part_b = {n: rules[n] for n in names if rules[n] != g_rules[n]}
        part_f = {n: fills[n] for n in names if fills[n] != g_fills[n]}
        got4 = must_return("pad (partial mappings)", do_pad, part_b or None, part_f or None)
        compare(got4, dims, exp, comparable, "pad with the resolved choice spelled as partial mappings + defaults")

    # (4) the same resolution through Grid.interp (1-D probe per shiftable axis)
    for ax in axes:
        n = ax["name"]
        if len(ax["positions"]) < 2:
            continue
        to = ax["positions"][1]
        probe = np.arange(1.0, ax["n"] + 1.0) ** 2
        pda = build.data_array(probe, [gen.dim_name(n, "center")])
        kw = {}
        if case["call_boundary"] is not None:
            kw["boundary"] = build.copy_arg(case["call_boundary"])
        if case["call_fill"] is not None:
            kw["fill_value"] = build.copy_arg(case["call_fill"])
        gi = must_return("Grid.interp probe", grid.interp, pda, n, to=to, **kw)
        ei = M.stencil(probe, 0, ax["n"], "center", to, "interp", rules[n], fills[n])
        if not np.array_equal(np.asarray(gi.values), ei):
            raise Violation("Grid.interp does not use the rule in force", axis=n, to=to, rule=rules[n], fill=fills[n],
                            got=np.asarray(gi.values).tolist(), expected=ei.tolist())

    some_width = any(w[0] or w[1] for w in case["widths"].values())
    padded = list(case["widths"])
    differ = len({(rules[n], fills[n]) for n in padded}) > 1
    kinds = {k: kind(case[k] if k.startswith("call") else case["grid"][k.split(":")[1]], names)
             for k in ("call_boundary", "call_fill", "g:boundary", "g:fill_value", "g:periodic")}
    partial = "partial" in kinds.values() or kinds["g:periodic"] == "list"
    classes = [f"{k}={v}" for k, v in kinds.items()]
    classes += [f"rule:{rules[n]}" for n in padded] + [f"npad:{len(padded)}"]
    if any(w[0] != w[1] for w in case["widths"].values()):
        classes.append("asymmetric")
    if any(max(w) >= gen.pos_len(by_name[n]["n"], case["data_pos"][n]) for n, w in case["widths"].items()):
        classes.append("width>=len")
    if not np.isfinite(np.asarray(case["values"], dtype=np.float64)).all():
        classes.append("nan-or-inf-data")
    return {"nontrivial": bool(some_width and (differ or partial)), "classes": classes}


def compare(got, dims, exp, comparable, what):
    if set(got.dims) != set(dims):
        raise Violation(f"{what}: dimension names differ", got=list(got.dims), expected=list(dims))
    gv = by_name_values(got, dims)
    if gv.shape != exp.shape:
        raise Violation(f"{what}: shape differs (widths not as requested)", got=list(gv.shape), expected=list(exp.shape))
    bad = (gv != exp) & ~(np.isnan(gv) & np.isnan(exp)) & comparable
    if bad.any():
        i = tuple(int(x) for x in np.argwhere(bad)[0])
        raise Violation(f"{what}: values differ", index=list(i), got=float(gv[i]), expected=float(exp[i]), n_bad=int(bad.sum()))
