"""C14 - metadata autoparsing recovers exactly the topology the conventions prescribe.

Oracle: the two documented tables (doc/grids.rst): COMODO (length relative to the centre
coordinate + c_grid_axis_shift) and SGRID (padding word -> node position); differential
against the Grid built from the explicit mapping."""
import numpy as np
from hypothesis import strategies as st

from vfw import gen
from vfw.core import Violation, must_return
from vfw.model import stencil as M

PROPERTY = "C14"
SIZES = {"quick": 6000, "thorough": 80000}
RULE = (
    "Hypothesis draws 1-3 axes with arbitrary dimension names (incl. names that are substrings of each other or of the words "
    "used in the attributes) and dataset dimension order; COMODO: any position set, cell count >= 1 (inner needs >= 2), "
    "c_grid_axis_shift -0.5 for left, +0.5 for right, either sign for inner/outer, none for center, arbitrary axis names; "
    "SGRID: one node position per axis via padding high/low/both/none, topology 1-D / 2-D / 2-D + vertical_dimensions / 3-D, "
    "with and without a space after ':', triplets in any order, 'Conventions' or 'conventions'; both conventions at once "
    "(SGRID must win); metadata together with explicit coords (must raise). Oracle: documented tables; Grid(ds) operations "
    "equal those of Grid(ds, coords=expected, autoparse_metadata=False). Non-trivial = >= 1 non-center position; distinct = "
    "canonical JSON. The evidence lists table-cell coverage."
)
ASSUMPTIONS = ["dimension names are identifiers; a zero-length 'inner' coordinate (n = 1) is not generated"]
PAD2POS = {"high": "left", "low": "right", "both": "inner", "none": "outer"}
POS2PAD = {v: k for k, v in PAD2POS.items()}
NAMES = ["x", "xc", "xg", "x_g", "XC", "XG", "a", "n", "p", "i", "ig", "lon", "lon_b", "lat", "lat_b", "pad", "padding", "high", "low",
         "both", "none", "node", "face", "k", "kc", "z", "zl", "depth", "depth_w", "yc", "y", "yg", "c", "l", "r", "e", "t", "d", "ad"]


@st.composite
def strategy_impl(draw, tier):
    conv = draw(st.sampled_from(["comodo", "sgrid", "sgrid", "both", "comodo+coords", "sgrid+coords"]))
    if conv.startswith("comodo"):
        naxes = draw(st.integers(1, 3))
    else:
        topo = draw(st.sampled_from(["1d", "2d", "2d+vert", "3d"]))
        naxes = {"1d": 1, "2d": 2, "2d+vert": 3, "3d": 3}[topo]
    need = naxes * 5
    pool = draw(st.lists(st.sampled_from(NAMES), min_size=need, max_size=need, unique=True))
    axes = []
    axis_names = ["X", "Y", "Z"] if not conv.startswith("comodo") else draw(st.lists(st.sampled_from(["X", "Y", "Z", "T", "lon", "t", "e", "x"]),
                                                                                  min_size=naxes, max_size=naxes, unique=True))
    for k in range(naxes):
        n = draw(st.integers(1, 4))
        if conv.startswith("comodo"):
            others = draw(st.sets(st.sampled_from(gen.OTHER_POS)))
            if n < 2:
                others = {o for o in others if o != "inner"}
            positions = ["center"] + [p for p in gen.OTHER_POS if p in others]
        else:
            node_pos = draw(st.sampled_from(["left", "right", "inner", "outer"]))
            if n < 2 and node_pos == "inner":
                n = 2
            positions = ["center", node_pos]
        dims = {p: pool[5 * k + j] for j, p in enumerate(positions)}
        signs = {p: draw(st.sampled_from([-0.5, 0.5])) for p in positions if p in ("inner", "outer")}
        axes.append({"name": axis_names[k], "n": n, "positions": positions, "dims": dims, "signs": signs})
    case = {"conv": conv, "axes": axes, "dim_order": draw(gen.permutations_of([d for a in axes for d in a["dims"].values()]))}
    if not conv.startswith("comodo"):
        case["sgrid"] = {"topo": topo, "space": draw(st.booleans()), "triplet_order": draw(gen.permutations_of(list(range(2 if topo == "2d+vert" else naxes)))),
                         "attr": draw(st.sampled_from(["Conventions", "conventions"])),
                         "word": draw(st.sampled_from(["SGRID-0.3", "sgrid-x.x", "CF-1.6, SGRID-0.3", "Sgrid"])),
                         "gridvar": draw(st.sampled_from(["grid", "topology", "g"]))}
    if conv == "both":
        # COMODO attributes that describe something else entirely (every dim a center of its own axis)
        case["comodo_decoy"] = True
    if conv.endswith("+coords"):
        # which axes the user's own `coords` name: the parsed ones, some of them, only an axis the metadata does not describe,
        # or both kinds
        case["user_coords"] = draw(st.sampled_from(["same", "subset", "disjoint", "overlap+new"]))
        case["user_axis"] = draw(st.sampled_from(["W", "Z2", "depth", "k"]))
    case["shift_spelling"] = draw(st.sampled_from(["float", "float", "str", "list", "arr", "f32"]))
    case["op"] = draw(st.sampled_from(["diff", "interp", "cumsum"]))
    case["boundary"] = draw(st.sampled_from(M.RULES))
    return case


def strategy(tier):
    return strategy_impl(tier)


def build_ds(case):
    import xarray as xr

    coords = {}
    sizes = {}
    for a in case["axes"]:
        for p in a["positions"]:
            d = a["dims"][p]
            L = gen.pos_len(a["n"], p)
            sizes[d] = L
            attrs = {}
            if case["conv"].startswith("comodo"):
                attrs["axis"] = a["name"]
                from vfw.scenario import spell_number

                how = case.get("shift_spelling", "float")
                if how in ("list", "arr") and p in ("left", "right"):
                    how = "str"   # a sequence carries no usable number: only where the length decides (inner / outer)
                if p == "left":
                    attrs["c_grid_axis_shift"] = spell_number(-0.5, how)
                elif p == "right":
                    attrs["c_grid_axis_shift"] = spell_number(0.5, how)
                elif p in ("inner", "outer"):
                    attrs["c_grid_axis_shift"] = spell_number(a["signs"][p], how)
            elif case.get("comodo_decoy"):
                attrs["axis"] = "Q" + d
            coords[d] = xr.DataArray(np.arange(L) * 1.0, dims=[d], attrs=attrs)
    ds = xr.Dataset(coords={d: coords[d] for d in case["dim_order"]})
    if "sgrid" in case:
        sg = case["sgrid"]
        sep = ": " if sg["space"] else ":"
        ax = case["axes"]

        def triplet(a):
            node_pos = a["positions"][1]
            return f"{a['dims']['center']}{sep}{a['dims'][node_pos]} (padding{sep}{POS2PAD[node_pos]})"

        attrs = {"cf_role": "grid_topology"}
        topo = sg["topo"]
        horiz = ax[:2] if topo == "2d+vert" else ax
        attrs["topology_dimension"] = {"1d": 1, "2d": 2, "2d+vert": 2, "3d": 3}[topo]
        nodes = [a["dims"][a["positions"][1]] for a in horiz]
        attrs["node_dimensions"] = " ".join(nodes)
        trip = [triplet(horiz[i]) for i in sg["triplet_order"]]
        attrs["volume_dimensions" if topo == "3d" else "face_dimensions"] = " ".join(trip)
        if topo == "2d+vert":
            attrs["vertical_dimensions"] = triplet(ax[2])
        ds[sg["gridvar"]] = xr.DataArray(np.array(1, dtype="int32"), attrs=attrs)
        ds.attrs[sg["attr"]] = sg["word"]
    return ds, sizes


def expected_coords(case):
    return {a["name"]: {p: a["dims"][p] for p in a["positions"]} for a in case["axes"]}


def check(case, ctx):
    import xarray as xr
    from xgcm import Grid, metadata_parsers

    ds, sizes = build_ds(case)
    exp = expected_coords(case)
    conv = case["conv"]
    classes = [f"conv:{conv}", f"naxes:{len(case['axes'])}"]
    for a in case["axes"]:
        nb = "n1" if a["n"] == 1 else ("n2" if a["n"] == 2 else "n>=3")
        for p in a["positions"]:
            if conv.startswith("comodo"):
                sign = a["signs"].get(p)
                classes.append(f"comodo:{p}:{sign if sign is not None else '-'}:{nb}")
            elif p != "center":
                classes.append(f"sgrid:{POS2PAD[p]}:{case['sgrid']['topo']}:{'space' if case['sgrid']['space'] else 'nospace'}")
    if conv.endswith("+coords"):
        mode = case.get("user_coords", "same")
        user = {k: dict(v) for k, v in exp.items()}
        if mode == "subset":
            user = dict(list(user.items())[:1])
        if mode in ("disjoint", "overlap+new"):
            # two dimensions the metadata says nothing about
            ds = ds.assign_coords(wq_c=("wq_c", np.arange(3) + 0.5), wq_o=("wq_o", np.arange(4) * 1.0))
            new = {case.get("user_axis", "W"): {"center": "wq_c", "outer": "wq_o"}}
            user = new if mode == "disjoint" else dict(list(user.items())[:1], **new)
        classes.append("user-coords:" + mode)
        try:
            g = Grid(ds, coords=user, periodic=False)
        except Exception:  # noqa: BLE001
            return {"nontrivial": True, "classes": classes}
        raise Violation("user-supplied coords together with parsed metadata were accepted instead of rejected", conv=conv, user_coords=user,
                        axes={n: dict(a.coords) for n, a in g.axes.items()})

    before = {str(k): repr(dict(v.attrs)) for k, v in ds.variables.items()}
    grid = must_return("Grid(ds) autoparse", Grid, ds, periodic=False, boundary=case["boundary"])
    after = {str(k): repr(dict(v.attrs)) for k, v in ds.variables.items()}
    if before != after:
        raise Violation("autoparsing rewrote attributes of the caller's dataset", changed={k: [before[k], after.get(k)] for k in before if before[k] != after.get(k)})
    got = {name: dict(ax.coords) for name, ax in grid.axes.items()}
    if got != exp:
        raise Violation("autoparsed axes / position-to-dimension assignment differ from the convention's table", got=got, expected=exp,
                        conv=conv, sgrid=case.get("sgrid"))
    parser = metadata_parsers.parse_comodo if conv == "comodo" else metadata_parsers.parse_sgrid
    _, kw = must_return("metadata parser", parser, ds)
    parsed = {k: dict(v) for k, v in kw["coords"].items()}
    if parsed != exp:
        raise Violation("parser output differs from the convention's table", got=parsed, expected=exp, conv=conv)
    # the other public ways in: the combined parser (SGRID first, COMODO as fall-back) and the per-axis functions of the
    # convention modules
    _, kw_all = must_return("parse_metadata", metadata_parsers.parse_metadata, ds)
    if {k: dict(v) for k, v in kw_all["coords"].items()} != exp:
        raise Violation("parse_metadata differs from the convention's table", got={k: dict(v) for k, v in kw_all["coords"].items()}, expected=exp, conv=conv)
    from xgcm import comodo as comodo_mod, sgrid as sgrid_mod

    cmod = comodo_mod if conv == "comodo" else sgrid_mod
    names_got = must_return("get_all_axes", cmod.get_all_axes, ds)
    if set(names_got) != set(exp):
        raise Violation("get_all_axes differs from the axes the convention prescribes", got=sorted(names_got), expected=sorted(exp), conv=conv)
    for name in exp:
        per_axis = must_return("get_axis_positions_and_coords", cmod.get_axis_positions_and_coords, ds, name)
        if dict(per_axis) != exp[name]:
            raise Violation("get_axis_positions_and_coords differs from the convention's table", axis=name, got=dict(per_axis), expected=exp[name], conv=conv)

    # differential: operations on the autoparsed grid == on the explicitly built grid
    explicit = must_return("Grid(coords=expected)", Grid, ds, coords={k: dict(v) for k, v in exp.items()}, periodic=False,
                           boundary=case["boundary"], autoparse_metadata=False)
    nontrivial = False
    for a in case["axes"]:
        if len(a["positions"]) < 2:
            continue
        nontrivial = True
        to = a["positions"][1]
        src = a["dims"]["center"]
        da = xr.DataArray(np.arange(1.0, sizes[src] + 1.0) ** 2, dims=[src])
        op = case["op"] if a["n"] >= 2 else ("interp" if case["op"] == "cumsum" else case["op"])  # cumsum needs >= 2 cells (C09's domain)
        fn1, fn2 = getattr(grid, op), getattr(explicit, op)
        r1 = must_return("operation on autoparsed grid", fn1, da, a["name"], to=to)
        r2 = must_return("operation on explicit grid", fn2, da, a["name"], to=to)
        if r1.dims != r2.dims or not np.array_equal(r1.values, r2.values):
            raise Violation("autoparsed grid computes other results than the grid built from the explicit mapping", axis=a["name"], to=to)
        ref = (M.cumsum(da.values, 0, a["n"], "center", to, case["boundary"], 0.0)[0] if op == "cumsum"
               else M.stencil(da.values, 0, a["n"], "center", to, op, case["boundary"], 0.0))
        if r1.dims != (a["dims"][to],) or not np.array_equal(r1.values, ref):
            raise Violation("operation on the autoparsed grid differs from the reference model", axis=a["name"], to=to)
    return {"nontrivial": nontrivial, "classes": classes}
