"""C19 - outputs are labelled with the grid's coordinates for the new position.

Oracle: a coordinate model written from the statement (which coordinates the result must
and must not carry), plus label-independence of the values (reference stencil model)."""
import numpy as np
from hypothesis import strategies as st

from vfw import build, gen
from vfw.core import Violation, must_return
from vfw.model import stencil as M

PROPERTY = "C19"
SIZES = {"quick": 4800, "thorough": 100000}
RULE = (
    "Hypothesis draws a grid dataset (1-3 axes, extra dims) whose dimension coordinates exist per dim or not "
    "at all, carry attrs, plus 0-4 non-dimension coordinates (0-D/1-D/N-D) on drawn dims; an input array that "
    "carries the dataset's coordinates, none, or wrong labels on the operated dim; an operation (diff/interp/"
    "min/max/cumsum) over 1-2 axes with explicit shift (padded and unpadded paths) and keep_coords. Oracle: "
    "coordinate model from the statement + reference values. Non-trivial = the dataset has a non-dimension "
    "coordinate touching an operated axis, or the input is mislabelled, or a dim lacks a dimension coordinate; "
    "distinct = canonical JSON."
)
ASSUMPTIONS = [
    "N-D coordinates are compared after transposing to the dataset's dimension order (the property fixes "
    "values and attributes, not the order of a coordinate's dimensions)",
]
OPS = ["diff", "interp", "min", "max", "cumsum"]
attr_sets = st.sampled_from([{}, {"units": "m"}, {"long_name": "cell position", "k": 3}, {"axis_hint": "u"}])


@st.composite
def strategy_impl(draw, tier):
    axes = draw(gen.layouts(max_axes=3, max_n=4 if tier == "quick" else 6, max_cells=120, allow_default_shifts=False))
    if all(len(a["positions"]) == 1 for a in axes):
        axes[0]["positions"].append(draw(st.sampled_from(gen.OTHER_POS)))
    names = [a["name"] for a in axes]
    by_name = {a["name"]: a for a in axes}
    shiftable = [n for n in names if len(by_name[n]["positions"]) > 1]
    op_axes = draw(st.lists(st.sampled_from(shiftable), min_size=1, max_size=min(2, len(shiftable)), unique=True))
    carried = [n for n in names if n not in op_axes and draw(st.booleans())]
    data_pos = {n: draw(st.sampled_from(by_name[n]["positions"])) for n in op_axes + carried}
    to = {n: (draw(st.sampled_from(by_name[n]["positions"][1:])) if data_pos[n] == "center" else "center") for n in op_axes}
    extra = draw(gen.extra_dims())
    all_dims = {}
    for a in axes:
        for p in a["positions"]:
            all_dims[gen.dim_name(a["name"], p)] = (a["name"], gen.pos_len(a["n"], p))
    for e in extra:
        all_dims[e[0]] = (None, e[1])
    dimcoord_mode = draw(st.sampled_from(["all", "all", "some", "none"]))
    dimcoords = {}
    for d in all_dims:
        has = dimcoord_mode == "all" or (dimcoord_mode == "some" and draw(st.booleans()))
        if has:
            dimcoords[d] = {"attrs": draw(attr_sets), "offset": draw(st.integers(-3, 3))}
    ndc = []
    for i in range(draw(st.integers(0, 4))):
        # at most one dim per axis, any extra dims
        cd = []
        for a in axes:
            if draw(st.booleans()):
                cd.append(gen.dim_name(a["name"], draw(st.sampled_from(a["positions"]))))
        for e in extra:
            if draw(st.booleans()):
                cd.append(e[0])
        cd = draw(gen.permutations_of(cd)) if cd else []
        ndc.append({"name": f"nd{i}", "dims": cd, "attrs": draw(attr_sets), "seed": draw(st.integers(0, 5))})
    dims = [gen.dim_name(n, data_pos[n]) for n in op_axes + carried] + [e[0] for e in extra]
    order = draw(gen.permutations_of(dims))
    values = draw(gen.data_values([all_dims[d][1] for d in order], elements=gen.small_ints))
    return {
        "axes": axes,
        "extra": extra,
        "dimcoords": dimcoords,
        "ndcoords": ndc,
        "op": draw(st.sampled_from(OPS)),
        "op_axes": op_axes,
        "data_pos": data_pos,
        "to": to,
        "dims": order,
        "values": values,
        "carry": draw(st.sampled_from(["none", "dataset", "mislabelled"])),
        "keep_coords": draw(st.booleans()),
        "flag_style": draw(st.sampled_from(["python", "python", "numpy", "int"])),   # how the keep_coords flag is spelled
        "boundary": draw(st.sampled_from(M.RULES)),
        "fill": draw(st.sampled_from([0.0, 1.0, -2.0])),
        "name": draw(st.sampled_from(["phi", "T", None])),
        # the same operations with metric weighting (1-D metrics at every position of the operated axes)
        "weighted": draw(st.sampled_from([False, False, True])),
    }


@st.composite
def faces_case(draw):
    """The labelling clauses on a face-connected grid: scalar and vector inputs (the halo of a vector component comes from
    the *other* component across axis-swapping links)."""
    nf = draw(st.integers(2, 3))
    N = draw(st.integers(2, 3))
    return {"kind": "faces", "nf": nf, "N": N, "table": draw(gen.link_tables(nf, ("X", "Y"), min_pairs=1)),
            "op": draw(st.sampled_from(["diff", "interp", "min", "max"])), "what": draw(st.sampled_from(["scalar", "X", "Y"])),
            "from_center": draw(st.booleans()), "boundary": draw(st.sampled_from(M.RULES)),
            "names": draw(st.permutations(["u", "v", "tracer", "phi"]))[:2], "keep_coords": draw(st.booleans()),
            "values": draw(gen.data_values([2, nf, N, N], elements=st.integers(-9, 9).map(float)))}


def check_faces(case, ctx):
    import xarray as xr
    from xgcm import Grid

    nf, N = case["nf"], case["N"]
    coords = {"xc": ("xc", np.arange(N) + 0.5, {"units": "m"}), "xl": ("xl", np.arange(N) * 1.0, {"units": "m", "edge": 1}),
              "yc": ("yc", np.arange(N) + 0.5), "yl": ("yl", np.arange(N) * 1.0, {"long_name": "y edge"}), "face": ("face", np.arange(nf))}
    ds = xr.Dataset(coords=coords)
    ds = ds.assign_coords(area=(("face", "yc", "xc"), np.ones((nf, N, N))), depth_l=(("yc", "xl"), np.ones((N, N))))
    grid = must_return("Grid construction", Grid, ds, coords={"X": {"center": "xc", "left": "xl"}, "Y": {"center": "yc", "left": "yl"}},
                       face_connections=gen.table_to_xgcm(case["table"]), periodic=False, autoparse_metadata=False, boundary=case["boundary"])
    fc = case["from_center"]
    vals = np.asarray(case["values"], dtype=np.float64)
    name_a, name_b = case["names"]
    what = case["what"]
    ax = "X" if what in ("scalar", "X") else "Y"
    if fc:
        dims_a = dims_b = ["face", "yc", "xc"]
        to = "left"
    else:
        dims_a = ["face", "yc", "xl"] if ax == "X" else ["face", "yl", "xc"]
        dims_b = ["face", "yl", "xc"] if ax == "X" else ["face", "yc", "xl"]
        to = "center"
    a = xr.DataArray(vals[0], dims=dims_a, name=name_a)
    b = xr.DataArray(vals[1], dims=dims_b, name=name_b)
    fn = getattr(grid, case["op"])
    if what == "scalar":
        got = must_return(f"Grid.{case['op']} (scalar, face-connected)", fn, a, ax, to=to, keep_coords=case["keep_coords"])
    else:
        other = "Y" if ax == "X" else "X"
        got = must_return(f"Grid.{case['op']} (vector component, face-connected)", fn, {ax: a}, ax, to=to, other_component={other: b},
                          keep_coords=case["keep_coords"])
    # the same arrays carrying face labels of their own (in another order than the dataset's): labels are not data
    perm = np.arange(nf)[::-1] * 3 + 5
    a2, b2 = a.assign_coords(face=("face", perm)), b.assign_coords(face=("face", perm))
    if what == "scalar":
        got2 = must_return("operation on an input with face labels of its own", fn, a2, ax, to=to, keep_coords=case["keep_coords"])
    else:
        got2 = must_return("operation on inputs with face labels of their own", fn, {ax: a2}, ax, to=to, other_component={other: b2},
                           keep_coords=case["keep_coords"])
    if not np.array_equal(np.asarray(got2.transpose(*got.dims).values), np.asarray(got.values), equal_nan=True):
        raise Violation("values on a face-connected grid depend on the face labels the input carries", input_kind=what)
    if got.name != name_a:
        raise Violation("result of an operation on a face-connected grid does not keep the input's name", got=got.name, expected=name_a,
                        input_kind=what, partner=name_b if what != "scalar" else None)
    new = {"X": {"left": "xl", "center": "xc"}, "Y": {"left": "yl", "center": "yc"}}[ax][to]
    old = {"X": {"left": "xc", "center": "xl"}, "Y": {"left": "yc", "center": "yl"}}[ax][to]
    if new not in got.dims or old in got.dims:
        raise Violation("axis dimension not replaced by the target position's dimension", dims=list(got.dims), expected_new=new)
    for d in got.dims:
        if d not in got.coords:
            raise Violation("dimension coordinate of the grid dataset missing on the result (face-connected grid)", dim=d)
        same_coord(got.coords[d], ds.coords[d], d)
    for name, c in got.coords.items():
        if old in c.dims:
            raise Violation("result carries a coordinate defined on the abandoned dimension (face-connected grid)", coord=str(name))
    for extra, edims in (("area", ("face", "yc", "xc")), ("depth_l", ("yc", "xl"))):
        fits = all(d in got.dims for d in edims)
        want = fits and case["keep_coords"]
        if (extra in got.coords) != want:
            raise Violation("non-dimension coordinate attached / missing against the rule (fits the result and keep_coords)", coord=extra,
                            attached=extra in got.coords, fits=fits, keep_coords=case["keep_coords"])
    swapping = any(l is not None and l[1] != ax_ for per in case["table"].values() for ax_, sides in per.items() for l in sides)
    return {"nontrivial": True, "classes": ["kind:faces", f"op:{case['op']}", f"input:{what}", "swapping-link" if swapping else "no-swapping-link",
                                            f"keep:{case['keep_coords']}"]}


def strategy(tier):
    return st.integers(0, 5).flatmap(lambda k: faces_case() if k == 0 else strategy_impl(tier))


def build_ds(case):
    import xarray as xr

    sizes = {}
    for a in case["axes"]:
        for p in a["positions"]:
            sizes[gen.dim_name(a["name"], p)] = gen.pos_len(a["n"], p)
    for e in case["extra"]:
        sizes[e[0]] = e[1]
    coords = {}
    for d, spec in case["dimcoords"].items():
        coords[d] = xr.DataArray(np.arange(sizes[d]) * 1.0 + spec["offset"], dims=[d], attrs=dict(spec["attrs"]))
    for c in case["ndcoords"]:
        shp = [sizes[d] for d in c["dims"]]
        vals = (np.arange(int(np.prod(shp, dtype=int))).reshape(shp) * 1.0 + 10.0 * c["seed"]) if shp else np.float64(c["seed"] + 0.5)
        coords[c["name"]] = xr.DataArray(vals, dims=list(c["dims"]), attrs=dict(c["attrs"]))
    # one 1-D variable per dimension makes every dimension known to the dataset, with or without a dimension coordinate
    ds = xr.Dataset({"_len_" + d: ((d,), np.zeros(n)) for d, n in sizes.items()}, coords=coords)
    for a in case["axes"]:
        for p in a["positions"]:
            d = gen.dim_name(a["name"], p)
            ds["m_" + d] = xr.DataArray(1.0 + 0.25 * np.arange(sizes[d]), dims=[d])
    return ds, sizes


def check(case, ctx):
    import xarray as xr

    if case.get("kind") == "faces":
        return check_faces(case, ctx)
    axes = case["axes"]
    by_name = {a["name"]: a for a in axes}
    ds, sizes = build_ds(case)
    weighted = bool(case.get("weighted"))
    metrics_arg = {(a["name"],): ["m_" + gen.dim_name(a["name"], p) for p in a["positions"]] for a in axes}
    grid = must_return("Grid construction", build.make_grid, ds, axes, periodic=False, metrics=metrics_arg)
    dims = list(case["dims"])
    a0 = np.asarray(case["values"], dtype=np.float64)

    def make_input(carry):
        da = xr.DataArray(a0.copy(), dims=dims, name=case["name"])
        if carry == "none":
            return da
        cs = {k: v for k, v in ds.coords.items() if all(d in dims for d in v.dims)}
        da = da.assign_coords(cs)
        if carry == "mislabelled":
            d = gen.dim_name(case["op_axes"][0], case["data_pos"][case["op_axes"][0]])
            da = da.assign_coords({d: (d, np.arange(sizes[d]) * -7.0 + 1000.0, {"units": "WRONG"})})
        return da

    flag = {"python": bool, "numpy": np.bool_, "int": int}[case.get("flag_style", "python")]

    def run(da):
        kw = dict(to=dict(case["to"]), boundary=case["boundary"], fill_value=case["fill"], keep_coords=flag(case["keep_coords"]))
        if weighted:
            kw["metric_weighted"] = {n: (n,) for n in case["op_axes"]}
        return must_return(f"Grid.{case['op']}", getattr(grid, case["op"]), da, list(case["op_axes"]), **kw)

    # with metric weighting the data are multiplied by a variable of the dataset, which xarray aligns by label: wrong
    # labels are then a different (ill-formed) request, not a relabelling of the same one -> only the property's own
    # domain (dataset coordinates or none) is used there
    carries = ("none", "dataset") if weighted else ("none", "dataset", "mislabelled")
    carry0 = case["carry"] if case["carry"] in carries else "dataset"
    got = run(make_input(carry0))

    # ---- reference values
    a = a0
    rdims = list(dims)
    old_dims = []
    for n in case["op_axes"]:
        frm, to = case["data_pos"][n], case["to"][n]
        k = rdims.index(gen.dim_name(n, frm))
        if weighted:
            shp = [1] * a.ndim
            shp[k] = a.shape[k]
            a = a * (1.0 + 0.25 * np.arange(a.shape[k])).reshape(shp)
        if case["op"] == "cumsum":
            a, _ = M.cumsum(a, k, by_name[n]["n"], frm, to, case["boundary"], case["fill"])
        else:
            a = M.stencil(a, k, by_name[n]["n"], frm, to, case["op"], case["boundary"], case["fill"])
        old_dims.append(rdims[k])
        rdims[k] = gen.dim_name(n, to)
        if weighted:
            shp = [1] * a.ndim
            shp[k] = a.shape[k]
            a = a / (1.0 + 0.25 * np.arange(a.shape[k])).reshape(shp)
    if list(got.dims) != rdims:
        raise Violation("result dims differ", got=list(got.dims), expected=rdims)
    if not (np.allclose(np.asarray(got.values), a, rtol=1e-12, atol=1e-12) if weighted else np.array_equal(np.asarray(got.values), a)):
        raise Violation("values depend on the coordinate labels of the input (or differ from the reference)",
                        carry=case["carry"], got=np.asarray(got.values).tolist(), expected=a.tolist())
    # values identical for every labelling
    for other in carries:
        if other != carry0:
            g2 = run(make_input(other))
            if not np.array_equal(np.asarray(g2.values), np.asarray(got.values)):
                raise Violation("values differ between labellings of the same input", a=carry0, b=other)
            if set(g2.coords) != set(got.coords):
                raise Violation("coordinates of the result depend on the labelling of the input", a=carry0, b=other,
                                coords_a=sorted(map(str, got.coords)), coords_b=sorted(map(str, g2.coords)))

    # ---- coordinate model
    if got.name != case["name"]:
        raise Violation("result name differs from the input's", got=got.name, expected=case["name"])

    def coordinate_model(got, via):
        for d in rdims:
            if d in ds.coords:
                if d not in got.coords:
                    raise Violation(via + "dimension coordinate of the grid dataset missing on the result", dim=d, new=d not in dims)
                same_coord(got.coords[d], ds.coords[d], d)
            elif d in got.coords:
                raise Violation(via + "result carries a dimension coordinate the grid dataset does not define", dim=d)
        for name, c in got.coords.items():
            stale = [d for d in c.dims if d in old_dims]
            if stale:
                raise Violation(via + "result carries a coordinate defined on the abandoned dimension", coord=str(name), dims=list(c.dims))
        for c in case["ndcoords"]:
            fits = all(d in rdims for d in c["dims"])
            want = fits and case["keep_coords"]
            have = c["name"] in got.coords
            if want and not have:
                raise Violation(via + "fitting dataset coordinate not attached although keep_coords=True", coord=c["name"], dims=c["dims"])
            if have and not want:
                raise Violation(via + "coordinate attached although it does not fit / keep_coords=False", coord=c["name"], dims=c["dims"],
                                keep_coords=case["keep_coords"])
            if have:
                same_coord(got.coords[c["name"]], ds.coords[c["name"]], c["name"])
        extra_coords = set(map(str, got.coords)) - set(rdims) - {c["name"] for c in case["ndcoords"]}
        if extra_coords:
            raise Violation(via + "unexpected coordinates on the result", coords=sorted(extra_coords))

    coordinate_model(got, "")

    # ---- the same request through the other public entry points: the pre-defined grid ufunc called directly, the
    # Grid.apply_as_grid_ufunc method and the module-level apply_as_grid_ufunc with the same function and widths
    routes = []
    if len(case["op_axes"]) == 1 and not weighted:
        from xgcm import gridops
        from xgcm.grid_ufunc import apply_as_grid_ufunc

        n1 = case["op_axes"][0]
        uf = getattr(gridops, f"{case['op']}_{case['data_pos'][n1]}_to_{case['to'][n1]}", None)
        if uf is not None:
            okw = dict(boundary={n1: case["boundary"]}, fill_value={n1: case["fill"]}, keep_coords=flag(case["keep_coords"]))
            sig = f"(q:{case['data_pos'][n1]})->(q:{case['to'][n1]})"
            bw = {"q": tuple(uf.boundary_width["X"])} if uf.boundary_width else None
            calls = {
                "gridops ufunc called directly: ": lambda da: uf(grid, da, axis=[(n1,)], **okw),
                "Grid.apply_as_grid_ufunc: ": lambda da: grid.apply_as_grid_ufunc(uf.ufunc, da, axis=[(n1,)], signature=sig, boundary_width=bw,
                                                                                 pad_before_func=uf.pad_before_func, **okw),
                "apply_as_grid_ufunc: ": lambda da: apply_as_grid_ufunc(uf.ufunc, da, axis=[(n1,)], grid=grid, signature=sig, boundary_width=bw,
                                                                       pad_before_func=uf.pad_before_func, **okw),
            }
            for via, fn in calls.items():
                alt = must_return(via.rstrip(": "), fn, make_input(carry0))
                if set(alt.dims) != set(rdims) or not np.array_equal(np.asarray(alt.transpose(*rdims).values), a):
                    raise Violation(via + "values / dims differ from the Grid method's", got_dims=list(alt.dims), expected_dims=rdims)
                coordinate_model(alt, via)
                routes.append(via)

    touching = any(any(d.startswith(n.lower()) for n in case["op_axes"]) for c in case["ndcoords"] for d in c["dims"])
    missing_dc = any(d not in case["dimcoords"] for d in rdims)
    classes = [f"op:{case['op']}", f"weighted:{weighted}", f"carry:{case['carry']}", f"keep:{case['keep_coords']}", f"nnd:{len(case['ndcoords'])}"]
    classes += [f"shift:{case['data_pos'][n]}>{case['to'][n]}" for n in case["op_axes"]]
    if missing_dc:
        classes.append("missing-dimcoord")
    if any(len(c["dims"]) >= 2 for c in case["ndcoords"]):
        classes.append("nd-coord")
    if any(len(c["dims"]) == 0 for c in case["ndcoords"]):
        classes.append("0d-coord")
    if routes:
        classes.append("other-entry-points")
    return {"nontrivial": bool(touching or case["carry"] == "mislabelled" or missing_dc), "classes": classes}


def same_coord(got, want, name):
    gd = list(got.dims)
    if set(gd) != set(want.dims):
        raise Violation("coordinate has other dimensions than in the grid dataset", coord=name, got=gd, expected=list(want.dims))
    gv = np.asarray(got.transpose(*want.dims).values)
    if not np.array_equal(gv, np.asarray(want.values)):
        raise Violation("coordinate values differ from the grid dataset's", coord=name, got=gv.tolist(), expected=np.asarray(want.values).tolist())
    if dict(got.attrs) != dict(want.attrs):
        raise Violation("coordinate attributes differ from the grid dataset's", coord=name, got=dict(got.attrs), expected=dict(want.attrs))
