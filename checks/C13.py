"""C13 - axis, dimension and variable names are opaque labels.

Metamorphic oracle: the same scenario run with canonical names and with a hostile injective
renaming must give identical outcomes (accept/raise decision, dims, shapes, values,
coordinate names) once the names are mapped back."""
import ast
import glob
import os

from hypothesis import strategies as st

from vfw import scen_gen, scenario
from vfw.core import Violation

PROPERTY = "C13"
SIZES = {"quick": 8000, "thorough": 60000}
RULE = (
    "Hypothesis draws a scenario from the shared corpus (simple grids with metrics, face-connected grids with scalar and vector "
    "calls, multi-axis grid ufuncs, signature pairs, COMODO/SGRID autoparsing, metric partitions, transform) written with "
    "canonical upper-case tokens, and an injective renaming of every token (axes, dims, coordinate and data variables, face "
    "dim, ufunc dummy names, target dims, array names) to identifiers of length 1-12: single letters a-z, names embedding a "
    "position word, case variants of position words, prefixes / suffixes / substrings of other names of the same renaming, parameter "
    "names of the xarray methods xgcm calls (drop, missing_dims, indexers, ...), names already used in another namespace, and "
    "a dictionary harvested at run time from the string literals of xgcm/*.py used alone and as suffixes; the five bare "
    "position words are excluded. Oracle: outcomes of the canonical and the renamed run are identical after mapping names back. "
    "Non-trivial = the renaming contains a hostile name (always, by construction) and the scenario has >= 1 call that returns; "
    "distinct = canonical JSON of scenario + renaming."
)
ASSUMPTIONS = [
    "the canonical upper-case tokens are themselves behaviour-neutral names (they contain no position word and are not "
    "substrings of each other in a way the code could notice); the relation compares two xgcm runs",
    "exception *types* must agree, messages are ignored (they legitimately contain names)",
    "names that xarray itself cannot carry through squeeze / isel / rename / pad / concat / apply_ufunc (decided by running those "
    "operations; today 'drop', 'missing_dims' and 'indexers' break DataArray.squeeze, which only the face-connected padding uses, so "
    "they are withheld from face-connected scenarios only) are outside xgcm's responsibility",
]
POSITION_WORDS = ["center", "left", "right", "inner", "outer"]
_HARVEST = None


_SAFE = {}


def xarray_safe(name, squeeze=True):
    """False for names that xarray *itself* cannot carry through the operations xgcm relies on (e.g. a size-1 dimension
    called 'drop' breaks DataArray.squeeze inside xarray): such names are outside what xgcm can be held responsible for
    and are never handed out.  Decided by running the operations, not by a list."""
    key = (name, squeeze)
    if key not in _SAFE:
        import numpy as np
        import xarray as xr

        try:
            a = xr.DataArray(np.arange(4.0).reshape(1, 4), dims=[name, "other_dim_q"])
            b = xr.DataArray(np.arange(8.0).reshape(2, 4), dims=[name, "other_dim_q"])
            if squeeze:  # only the face-connected padding squeezes slices
                a.squeeze()
                b.isel({name: slice(0, 1)}).squeeze()
            b.rename({name: "renamed_q"}).rename({"renamed_q": name})
            b.pad({name: (1, 1)}, "wrap")
            b.pad({name: (1, 0)}, "constant", constant_values=0.0)
            b.transpose("other_dim_q", name)
            b.cumsum(dim=name)
            b.sum([name])
            xr.concat([b, b], dim=name)
            b.assign_coords({name: (name, np.arange(2.0))}).reset_coords(drop=True).reset_index([name], drop=True)
            b.isel({"other_dim_q": 0}).expand_dims(["other_dim_q"])
            b.chunk({name: 1}).compute()
            xr.Dataset(coords={name: (name, np.arange(2.0))})[name]
            xr.apply_ufunc(lambda x: x, b, input_core_dims=[[name]], output_core_dims=[[name]], exclude_dims={name})
            _SAFE[key] = True
        except Exception:  # noqa: BLE001
            _SAFE[key] = False
    return _SAFE[key]


def harvested():
    global _HARVEST
    if _HARVEST is None:
        import xgcm

        words = set()
        root = os.path.dirname(xgcm.__file__)
        for path in sorted(glob.glob(os.path.join(root, "*.py"))):
            try:
                tree = ast.parse(open(path).read())
            except SyntaxError:
                continue
            for node in ast.walk(tree):
                if isinstance(node, ast.Constant) and isinstance(node.value, str):
                    w = node.value
                    if w.isidentifier() and 1 <= len(w) <= 12 and w not in POSITION_WORDS:
                        words.add(w)
        _HARVEST = sorted(words) or ["dummy"]
    return _HARVEST


LETTERS = [chr(c) for c in range(ord("a"), ord("z") + 1)]
EMBEDDED = ["leftish", "xinner", "router", "center_x", "outerX", "inner1", "aleft", "right_", "centers", "lefty", "souter"]
CASE = ["Center", "LEFT", "Right", "INNER", "Outer", "CENTER", "Left"]
# besides xgcm's own literals: parameter names of the xarray methods xgcm calls (a dimension called like one of them
# must not be mistaken for a keyword when it is passed as **{dim: ...})
ALWAYS = ["dummy", "temp_unique", "remapped", "drop", "missing_dims", "indexers", "face", "depth", "time", "lon", "lat",
          "dim", "name", "axis", "keep_attrs", "skipna", "mode", "names", "coords", "dims", "data", "attrs", "values", "variable"]


@st.composite
def renaming_for(draw, toks, reserved=(), squeeze=True, themed=False):
    """toks: {token: namespace}.  Names are unique within a namespace; across namespaces the same name may be (and
    regularly is) handed out twice: an axis called like one of its dimensions, a ufunc dummy name equal to the name
    of a real axis (possibly of *another* axis of the same call)."""
    words = harvested()
    used = {"axis": list(reserved), "ds": [], "dummy": []}
    mapping = {}
    # now and then every axis of the grid gets a name built around a position word (tests of the kind "do all keys look like
    # positions?" only trip when all of them do)
    theme = draw(st.sampled_from([None, None, None, None, None, "prefix", "suffix", "infix"] + (["prefix", "prefix", "suffix", "infix"] if themed else [])))
    for t, space in toks.items():
        names = used[space]
        others = [n for sp, lst in used.items() if sp != space for n in lst if n not in names]
        kind = draw(st.sampled_from(["letter", "letter", "embedded", "case", "harvest", "harvest-suffix", "derived", "always",
                                     "other-namespace", "other-namespace"]))
        if theme and space == "axis":
            w = draw(st.sampled_from(POSITION_WORDS))
            tail = draw(st.sampled_from(["_x", "ish", "1", "line", "X", "_"]))
            cand = {"prefix": w + tail, "suffix": draw(st.sampled_from(["x_", "a", "g"])) + w, "infix": "a" + w + tail}[theme]
        elif kind == "other-namespace" and others:
            cand = draw(st.sampled_from(others))
        elif kind == "letter" or kind == "other-namespace":
            cand = draw(st.sampled_from(LETTERS))
        elif kind == "embedded":
            cand = draw(st.sampled_from(EMBEDDED))
        elif kind == "case":
            cand = draw(st.sampled_from(CASE))
        elif kind == "harvest":
            cand = draw(st.sampled_from(words))
        elif kind == "always":
            cand = draw(st.sampled_from(ALWAYS))
        elif kind == "harvest-suffix":
            base = draw(st.sampled_from(names)) if names else draw(st.sampled_from(LETTERS))
            cand = (base + draw(st.sampled_from(ALWAYS + words)))[:12]
        else:
            if names:
                base = draw(st.sampled_from(names))
                form = draw(st.sampled_from(["prefix", "suffix", "sub", "extend"]))
                if form == "prefix" and len(base) > 1:
                    cand = base[: draw(st.integers(1, len(base) - 1))]
                elif form == "suffix" and len(base) > 1:
                    cand = base[draw(st.integers(1, len(base) - 1)):]
                elif form == "sub" and len(base) > 2:
                    cand = base[1:-1]
                else:
                    cand = (base + draw(st.sampled_from(["_g", "c", "x", "1", "_b"])))[:12]
            else:
                cand = draw(st.sampled_from(LETTERS))
        cand = cand.lstrip("_") or "u"
        if not xarray_safe(cand, squeeze):
            cand = "q" + cand[:10]
        if not cand.isidentifier() or cand in POSITION_WORDS:
            cand = "q" + cand[:10] if ("q" + cand[:10]).isidentifier() else "q"
        k = 0
        final = cand
        while final in names or final in POSITION_WORDS:
            k += 1
            final = (cand[: 12 - len(str(k))] + str(k))
        names.append(final)
        mapping[t] = final
    # two names of one namespace where one is contained in the other (`'z' in 'zl'` is true for strings as well as for lists)
    for space in ("axis", "ds"):
        mine = [t for t, sp in toks.items() if sp == space]
        if len(mine) >= 2 and draw(st.integers(0, 3)) == 0:
            a, b = draw(st.permutations(mine))[:2]
            base = mapping[a]
            form = draw(st.sampled_from(["suffixed", "prefixed", "wrapped", "doubled"]))
            cand = {"suffixed": base + draw(st.sampled_from(["l", "_g", "c", "1"])), "prefixed": draw(st.sampled_from(["n", "g", "x"])) + base,
                    "wrapped": "a" + base + "b", "doubled": base + base}[form][:14]
            taken = [mapping[t] for t in mine if t != b] + (list(reserved) if space == "axis" else [])
            if cand.isidentifier() and cand not in taken and cand not in POSITION_WORDS and xarray_safe(cand, squeeze):
                mapping[b] = cand
    return mapping


@st.composite
def strategy_impl(draw, tier):
    sc = draw(scen_gen.any_family(max_calls=2))
    toks = scen_gen.tokens_of(sc)
    # SGRID axes are always called X, Y, Z by the convention: those are constants of the scenario, not renamable tokens
    reserved = [a for a in ("X", "Y", "Z") if a not in toks] if sc.get("family") == "autoparse" else []
    return {"scenario": sc, "renaming": draw(renaming_for(toks, reserved, squeeze=sc.get("family") == "faces",
                                                          themed=sc.get("family") == "default-shifts")), "spaces": toks}


def strategy(tier):
    return strategy_impl(tier)


def check(case, ctx):
    sc, ren = case["scenario"], case["renaming"]
    spaces = case.get("spaces") or scen_gen.tokens_of(sc)
    base = scenario.run_scenario(sc)
    other = scenario.run_scenario(sc, {"map": ren, "spaces": spaces})
    if len(base) != len(other):
        raise Violation("construction is accepted under one naming and refused under the other", canonical=base[:1], renamed=other[:1], renaming=ren)
    ok_calls = 0
    for i, (a, b) in enumerate(zip(base, other)):
        if isinstance(a, dict) and isinstance(b, dict) and "raise" in a and "raise" in b:
            continue   # refused under both namings: "the same calls are accepted" - the kind of exception is not part of the statement
        if a != b:
            call = sc["calls"][i] if len(base) == len(sc["calls"]) else {"fn": "construct"}
            raise Violation("renaming changed the outcome of a call", call_index=i, fn=call["fn"], canonical=brief(a), renamed=brief(b), renaming=ren,
                            family=sc.get("family"))
        if "ok" in a:
            ok_calls += 1
    kinds = sorted({c["fn"] for c in sc["calls"]})
    classes = [f"family:{sc.get('family')}"] + [f"fn:{k}" for k in kinds]
    vals = list(ren.values())
    if any(len(v) == 1 for v in vals):
        classes.append("ren:single-letter")
    if any(any(w in v.lower() for w in POSITION_WORDS) for v in vals):
        classes.append("ren:embeds-position-word")
    if any(a != b and a in b for a in vals for b in vals):
        classes.append("ren:substring-of-other")
    if any(v in ("dummy", "temp_unique", "remapped") or v.endswith("dummy") for v in vals):
        classes.append("ren:internal-temporary")
    if len(set(vals)) < len(vals):
        classes.append("ren:same-name-in-two-namespaces")
    dn = [ren[t] for t, sp in spaces.items() if sp == "dummy"]
    an = [ren[t] for t, sp in spaces.items() if sp == "axis"]
    if any(d in an for d in dn):
        classes.append("ren:dummy-equals-real-axis")
    return {"nontrivial": ok_calls > 0, "classes": classes}


def brief(o):
    if "ok" in o and isinstance(o["ok"], dict) and "values" in o["ok"]:
        v = dict(o["ok"])
        v["values"] = v["values"][:6]
        return {"ok": v}
    return o
