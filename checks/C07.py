"""C07 - the conservative transform neither creates nor destroys the transformed quantity.

Oracle: exact rational overlap model (vfw.model.transform.overlap_weights), conservation,
and the merge / reversal / column-independence relations; kernel level and Grid.transform."""
import numpy as np
from hypothesis import strategies as st

from vfw import gen
from vfw.core import Violation, must_return
from vfw.model import transform as TM

PROPERTY = "C07"
SIZES = {"quick": 8000, "thorough": 120000}
RULE = (
    "Hypothesis draws column length n 1-6, 0-2 leading dims (1-3 columns each), a target_data profile on the n+1 bounds per "
    "column (or one shared profile) from a lattice of dyadic rationals mixed with arbitrary floats (so repeats, non-monotonic "
    "profiles and values exactly on bin edges are common), 2-7 strictly monotonic bin edges from the same lattice, extended "
    "by construction to span all profiles (85%), increasing or decreasing, integer data; level = kernel "
    "(interp_1d_conservative) or api (Grid.transform with target_data on bounds or on centres, target as ndarray or "
    "DataArray, optional dask chunking of leading dims). Oracle: rational overlap weights (weight matrix extracted with unit "
    "vectors), conservation, non-negativity, bin merging, bin reversal, column independence, output naming/coordinate. "
    "Non-trivial = n>=2 and >=2 bins and (non-monotonic profile or value on a bin edge or repeated value or decreasing bins "
    "with >=2 columns); distinct = canonical JSON."
)
ASSUMPTIONS = [
    "numba is not installed: the kernels run through /verif/stubs/numba (a pure-Python guvectorize that calls the unmodified "
    "kernel source once per column); numba's own compilation semantics are not exercised",
    "weights compared with atol 1e-12 (one division per weight); homogeneous cells on an interior bin edge: only W>=0, the "
    "pair of adjacent bins sums to 1, zero elsewhere",
]
lattice = st.integers(-8, 8).map(lambda k: k / 4.0)
theta_vals = st.one_of(lattice, lattice, st.floats(-2.0, 2.0, allow_nan=False, width=64))


@st.composite
def strategy_impl(draw, tier):
    n = draw(st.integers(1, 6))
    lead = draw(st.lists(st.integers(1, 3), min_size=0, max_size=2))
    ncol = int(np.prod(lead, dtype=int)) if lead else 1
    shared = draw(st.booleans()) if lead else False
    nprof = 1 if shared else ncol
    thetas = [draw(st.lists(theta_vals, min_size=n + 1, max_size=n + 1)) for _ in range(nprof)]
    edges = sorted(draw(st.sets(lattice, min_size=2, max_size=7)))
    span = draw(st.integers(0, 6)) != 0
    if span:
        lo = min(min(t) for t in thetas)
        hi = max(max(t) for t in thetas)
        edges[0] = min(edges[0], lo)
        edges[-1] = max(edges[-1], hi)
    # density-like target data: a large offset with fine spacing (needs all of float64), together with data stored in single
    # precision now and then - the overlaps are properties of the target data, whatever the precision of the transformed data
    affine = draw(st.sampled_from([None, None, None, [1024.0, 2.0 ** -7], [100000.0, 2.0 ** -10]]))
    if affine:
        off, sc = affine
        thetas = [[off + sc * x for x in t] for t in thetas]
        edges = sorted(set(off + sc * x for x in edges))
        if len(edges) < 2:
            edges = [off - sc, off + sc]
    decreasing = draw(st.booleans())
    phi = draw(gen.data_values(lead + [n], elements=st.integers(-9, 9).map(float)))
    level = draw(st.sampled_from(["kernel", "kernel", "api"]))
    case = {"n": n, "lead": lead, "shared": shared, "thetas": thetas, "edges": edges, "decreasing": decreasing,
            "phi": phi, "level": level, "phi_dtype": draw(st.sampled_from(["float64", "float64", "float32", "int64", "int32"])), "affine": bool(affine)}
    if level == "api":
        case["api"] = {
            "td_pos": draw(st.sampled_from(["outer", "outer", "center"])),
            "target_kind": draw(st.sampled_from(["ndarray", "dataarray"])),
            "target_dim": draw(st.sampled_from(["rho", "sigma_bins", "b"])),
            "td_name": draw(st.sampled_from(["theta", "dens", "T"])),
            "chunk": draw(st.booleans()),
            "order": draw(gen.permutations_of([f"e{i}" for i in range(len(lead))] + ["Z"])),
            "extra_pos": sorted(draw(st.sets(st.sampled_from(["left", "right", "inner"]), max_size=1 if draw(st.integers(0, 3)) == 0 else 0))),
        }
        if case["api"]["td_pos"] == "center":
            # profiles are given on the n cell centres; bounds follow by extend-interpolation
            case["thetas"] = [t[:n] for t in thetas]
    return case


def strategy(tier):
    return strategy_impl(tier)


def bounds_from_centres(t):
    t = list(t)
    return [t[0]] + [(a + b) / 2.0 for a, b in zip(t[:-1], t[1:])] + [t[-1]]


def column_profiles(case):
    """-> list of bound profiles (n+1 values), one per column in C order of `lead`."""
    ncol = int(np.prod(case["lead"], dtype=int)) if case["lead"] else 1
    profs = case["thetas"]
    if case["level"] == "api" and case["api"]["td_pos"] == "center":
        profs = [bounds_from_centres(t) for t in profs]
    if case["shared"] or len(profs) == 1:
        return [profs[0]] * ncol
    return profs


def check_weight_matrix(Wgot, theta, inc_edges, what, tol=1e-12):
    """Wgot[j, i] for increasing edges vs the rational model."""
    W, free = TM.overlap_weights(theta, inc_edges)
    Wexp = TM.to_float(W)
    mask = np.ones(Wexp.shape, bool)
    for i, j1, j2 in free:
        mask[j1, i] = mask[j2, i] = False
        a, b = Wgot[j1, i], Wgot[j2, i]
        if a < -tol or b < -tol or abs(a + b - 1.0) > tol:
            raise Violation(f"{what}: homogeneous cell on an interior bin edge is not distributed with total 1",
                            cell=int(i), bins=[int(j1), int(j2)], weights=[float(a), float(b)], theta=list(map(float, theta)), edges=list(map(float, inc_edges)))
    bad = mask & (np.abs(Wgot - Wexp) > tol)
    if bad.any():
        j, i = (int(x) for x in np.argwhere(bad)[0])
        raise Violation(f"{what}: weight differs from overlap fraction", bin=j, cell=i, got=float(Wgot[j, i]), expected=float(Wexp[j, i]),
                        theta=list(map(float, theta)), edges=list(map(float, inc_edges)))
    if (Wgot < -1e-15).any():
        raise Violation(f"{what}: negative weight", theta=list(map(float, theta)), edges=list(map(float, inc_edges)))
    if TM.within_span(theta, inc_edges):
        sums = Wgot.sum(axis=0)
        if np.abs(sums - 1.0).max(initial=0) > max(tol, 1e-12) * (1 if tol <= 1e-12 else len(theta)):
            i = int(np.argmax(np.abs(sums - 1.0)))
            raise Violation(f"{what}: quantity not conserved (column of weights does not sum to 1)", cell=i, total=float(sums[i]),
                            theta=list(map(float, theta)), edges=list(map(float, inc_edges)))
    return bool(free)


def check(case, ctx):
    from xgcm.transform import interp_1d_conservative

    n, lead = case["n"], list(case["lead"])
    inc = [float(x) for x in case["edges"]]
    bins = np.array(inc[::-1] if case["decreasing"] else inc)
    m = len(inc) - 1
    pdt = np.dtype(case.get("phi_dtype", "float64"))
    wtol = 1e-12 if pdt != np.float32 else 2e-6   # single-precision data come back in single precision (whole-number data in double)
    otol = 1e-10 if pdt != np.float32 else 1e-5
    phi = np.asarray(case["phi"], dtype=np.float64).reshape(tuple(lead) + (n,))
    profs = column_profiles(case)
    ncol = len(profs)
    theta_full = np.array(profs, dtype=np.float64).reshape(tuple(lead) + (n + 1,))
    phi_cols = phi.reshape(ncol, n)

    on_edge = False
    # --- per column: weight matrix by unit vectors, vs rational model
    Ws = []
    for c, th in enumerate(profs):
        tharr = np.array(th, dtype=np.float64)
        out = must_return("interp_1d_conservative (unit vectors)", interp_1d_conservative, np.eye(n, dtype=pdt), np.broadcast_to(tharr, (n, n + 1)).copy(), np.array(inc))
        W = np.asarray(out, dtype=np.float64).T  # [bin, cell]
        if W.shape != (m, n):
            raise Violation("kernel output shape", got=list(W.shape), expected=[m, n])
        on_edge = check_weight_matrix(W, th, inc, "kernel", wtol) or on_edge
        Ws.append(W)
        # merging two adjacent bins sums their contents
        if m >= 2:
            k = 1 + (c % (m - 1))
            merged = inc[:k] + inc[k + 1:]
            out2 = must_return("interp_1d_conservative (merged bins)", interp_1d_conservative, np.eye(n, dtype=pdt), np.broadcast_to(tharr, (n, n + 1)).copy(), np.array(merged))
            W2 = np.asarray(out2, dtype=np.float64).T
            Wsum = np.vstack([W[:k - 1], W[k - 1:k] + W[k:k + 1], W[k + 1:]])
            if np.abs(W2 - Wsum).max(initial=0) > wtol:
                raise Violation("merging two adjacent bins does not sum their contents", removed_edge=merged and inc[k], theta=list(map(float, th)), edges=inc,
                                merged=W2.tolist(), summed=Wsum.tolist())
    expected = np.stack([Ws[c] @ phi_cols[c] for c in range(ncol)]).reshape(tuple(lead) + (m,))
    if case["decreasing"]:
        expected = expected[..., ::-1]
    scale = max(1.0, float(np.abs(phi).max(initial=0)) * n)

    if case["level"] == "kernel":
        th_arg = np.array(profs[0]) if (case["shared"] and lead) else theta_full
        got = np.asarray(must_return("interp_1d_conservative", interp_1d_conservative, phi.astype(pdt), th_arg, bins), dtype=np.float64)
        if got.shape != expected.shape:
            raise Violation("kernel output shape (multi-column)", got=list(got.shape), expected=list(expected.shape))
        if np.abs(got - expected).max(initial=0) > otol * scale:
            idx = tuple(int(x) for x in np.argwhere(np.abs(got - expected) > otol * scale)[0])
            raise Violation("multi-column / ordered-bin call differs from per-column weights (columns are not independent or the bin order "
                            "does more than reverse the output)", index=list(idx), got=float(got[idx]), expected=float(expected[idx]),
                            decreasing=case["decreasing"], lead=lead)
        # listing the bins in the other order only reverses the output
        got_r = np.asarray(must_return("interp_1d_conservative (reversed bins)", interp_1d_conservative, phi.astype(pdt), th_arg, bins[::-1].copy()), dtype=np.float64)
        if not np.array_equal(got_r, got[..., ::-1]):
            raise Violation("reversing the bin order does not simply reverse the output along the bin axis", lead=lead)
    else:
        got = run_api(case, phi, profs, bins, expected, scale, pdt, otol)

    nonmono = any(not (all(a < b for a, b in zip(t[:-1], t[1:])) or all(a > b for a, b in zip(t[:-1], t[1:]))) for t in profs)
    repeated = any(len(set(t)) < len(t) for t in profs)
    edge_hit = any(x in inc for t in profs for x in t)
    nt = n >= 2 and m >= 2 and (nonmono or repeated or edge_hit or (case["decreasing"] and ncol >= 2))
    classes = [f"level:{case['level']}", f"n:{n}", f"ncol:{min(ncol, 4)}", "decreasing" if case["decreasing"] else "increasing",
               f"data:{pdt.name}", "density-like-target" if case.get("affine") else "order-one-target"]
    if nonmono:
        classes.append("non-monotonic")
    if on_edge:
        classes.append("homogeneous-cell-on-interior-edge")
    if edge_hit:
        classes.append("value-on-bin-edge")
    if not all(TM.within_span(t, inc) for t in profs):
        classes.append("outside-span")
    if case["level"] == "api":
        classes += [f"td:{case['api']['td_pos']}", f"target:{case['api']['target_kind']}", "chunked" if case["api"]["chunk"] else "eager"]
    return {"nontrivial": bool(nt), "classes": classes}


def run_api(case, phi, profs, bins, expected, scale, pdt=np.dtype("float64"), otol=1e-10):
    import xarray as xr
    from xgcm import Grid

    api = case["api"]
    n, lead = case["n"], list(case["lead"])
    m = len(bins) - 1
    positions = ["center", "outer"] + api["extra_pos"]
    coords = {}
    gc = {"Z": {}}
    for p in positions:
        d = gen.dim_name("Z", p)
        coords[d] = (d, np.arange(gen.pos_len(n, p)) * 1.0)
        gc["Z"][p] = d
    enames = [f"e{i}" for i in range(len(lead))]
    for name, size in zip(enames, lead):
        coords[name] = (name, np.arange(size) * 1.0)
    ds = xr.Dataset(coords=coords)
    grid = must_return("Grid construction", Grid, ds, coords=gc, periodic=False, autoparse_metadata=False)
    order = [("zc" if d == "Z" else d) for d in api["order"]]
    da = xr.DataArray(phi.astype(pdt), dims=enames + ["zc"], name="q").transpose(*order)
    tdim = "zo" if api["td_pos"] == "outer" else "zc"
    raw = case["thetas"]
    if case["shared"] or not lead:
        td = xr.DataArray(np.array(raw[0], dtype=np.float64), dims=[tdim], name=api["td_name"])
    else:
        td = xr.DataArray(np.array(raw, dtype=np.float64).reshape(tuple(lead) + (len(raw[0]),)), dims=enames + [tdim], name=api["td_name"])
        td = td.transpose(*[(tdim if d == "zc" else d) for d in order])
    if api["chunk"] and lead:
        da = da.chunk({enames[0]: 1})
        if enames[0] in td.dims:
            td = td.chunk({enames[0]: 1})
    if api["target_kind"] == "ndarray":
        target = np.array(bins)
        newdim = api["td_name"]
    else:
        target = xr.DataArray(np.array(bins), dims=[api["target_dim"]])
        newdim = api["target_dim"]
    # a call with *other* target_data of the same name first (another time step, say): nothing of it may survive on the Grid
    td_other = (td * 0.5 - 3.25).rename(td.name)
    must_return("Grid.transform(method='conservative') with other target_data", grid.transform, da, "Z", target, target_data=td_other, method="conservative")
    got = must_return("Grid.transform(method='conservative')", grid.transform, da, "Z", target, target_data=td, method="conservative")
    if api["chunk"] and lead:
        import dask

        if not dask.is_dask_collection(got.data):
            raise Violation("conservative transform of dask-backed input is not lazy")
        # a second variable transformed the same way and evaluated in the same graph (a Dataset of remapped variables): each
        # result is its own - the transform is linear in the data, so the second one is three times the first
        got3 = must_return("Grid.transform(method='conservative') of a second variable", grid.transform, (da * 3.0).rename("q3"), "Z", target,
                           target_data=td, method="conservative")
        got, got3 = dask.compute(got, got3)
        g1 = np.asarray(got.transpose(*got3.dims).values, dtype=np.float64)
        g3 = np.asarray(got3.values, dtype=np.float64)
        if g1.shape != g3.shape or not np.allclose(g3, 3.0 * g1, rtol=1e-6 if pdt != np.float64 else 1e-12, atol=otol * scale * 3, equal_nan=True):
            raise Violation("two conservative transforms evaluated in one dask graph are not each their own result "
                            "(the transform of 3 x data is not 3 x the transform of data)")
    want_dims = enames + [newdim]
    if set(got.dims) != set(want_dims):
        raise Violation("output dimensions of the conservative transform", got=list(got.dims), expected=want_dims)
    gv = np.asarray(got.transpose(*want_dims).values, dtype=np.float64)
    if gv.shape != expected.shape:
        raise Violation("output shape of the conservative transform", got=list(gv.shape), expected=list(expected.shape))
    if np.abs(gv - expected).max(initial=0) > otol * scale:
        idx = tuple(int(x) for x in np.argwhere(np.abs(gv - expected) > otol * scale)[0])
        raise Violation("Grid.transform(conservative) differs from per-column overlap weights", index=list(idx), got=float(gv[idx]),
                        expected=float(expected[idx]), td_pos=api["td_pos"], decreasing=case["decreasing"])
    centres = (np.array(bins)[1:] + np.array(bins)[:-1]) / 2.0
    if newdim not in got.coords or not np.array_equal(np.asarray(got[newdim].values), centres):
        raise Violation("new coordinate is not the bin centres", got=(got[newdim].values.tolist() if newdim in got.coords else None), expected=centres.tolist())
    inc = sorted(bins.tolist())
    if all(TM.within_span(t, inc) for t in profs):
        tot_in = phi.sum(axis=-1)
        tot_out = gv.sum(axis=-1)
        if np.abs(tot_in - tot_out).max(initial=0) > otol * scale:
            raise Violation("sum over output bins differs from sum over input cells", sum_in=tot_in.tolist(), sum_out=tot_out.tolist())
    return gv
