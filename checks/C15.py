"""C15 - grid-ufunc signatures: parse/print are inverse; equivalence is renaming.

Oracle: own three-valued grammar recogniser (vfw.model.signature), canonical form for
equivalence.  Bounded exhaustive enumeration + single-character corruptions + Hypothesis
beyond the enumerated bound."""
import itertools
import multiprocessing as mp
import typing

import numpy as np
from hypothesis import strategies as st

from vfw.core import Violation, digest, jsonable
from vfw.model import signature as S

PROPERTY = "C15"
SIZES = {"quick": 8000, "thorough": 120000}
RULE = (
    "(a) exhaustive: every well-formed signature with <=2 inputs, 1 output, <=2 pairs per argument (quick: output "
    "<=1 pair) over 2 names (one hostile: 't') x 5 positions: accepted, str() round-trip, names/positions as written, "
    "re-parse fixed point, self-equivalence and equivalence with a renaming; (b) exhaustive: every single-character "
    "deletion/insertion/substitution (alphabet '(),:->atX_1 ') of every signature with <=1 input, <=1 output "
    "(quick <=1 pair per argument): classified by an independent recogniser as well-formed (must be accepted and "
    "round-trip), listed-malformed (must be rejected) or unspecified (skipped, counted); (c) Hypothesis: signatures up "
    "to 3 inputs, 2 outputs, 2 pairs, 3 names from a hostile pool, with renamings / merges / one-slot edits: "
    "equivalent() <=> equal canonical forms, symmetric; Annotated type hints == string; predefined operations found "
    "for any axis name. Non-trivial (Hypothesis part) = >=2 distinct names or a hostile name; distinct = canonical JSON; "
    "for the enumerated parts every string is distinct and counted as non-trivial when it has >=2 pairs or is a corruption."
)
ASSUMPTIONS = [
    "strings about which the statement is silent (trailing comma inside an argument, pairs juxtaposed without a comma, "
    "a name equal to a position word) are skipped and counted, not asserted either way",
    "rejection = any exception; acceptance = _GridUFuncSignature.from_string returns",
]
HOSTILE = ["t", "e", "r", "c", "n", "l", "f", "le", "X", "XY", "Y", "x", "xc", "leftish", "xinner", "router", "center_x",
           "Center", "LEFT", "a", "ab", "b", "__a", "dummy", "i", "o", "u", "nn", "in", "out", "lef", "righ", "cente"]
POS = list(S.POSITIONS)
ALPHABET = "(),:->atX_1 "


# ------------------------------------------------------------------ assertions on one string
def accept_and_roundtrip(text, parsed):
    from xgcm.grid_ufunc import _GridUFuncSignature

    try:
        sig = _GridUFuncSignature.from_string(text)
    except Exception as e:  # noqa: BLE001
        raise Violation("well-formed signature rejected", signature=text, exception=type(e).__name__, message=str(e)[:200])
    want_in_names = [tuple(n for n, _ in arg) for arg in parsed["in"]]
    want_in_pos = [tuple(p for _, p in arg) for arg in parsed["in"]]
    want_out_names = [tuple(n for n, _ in arg) for arg in parsed["out"]]
    want_out_pos = [tuple(p for _, p in arg) for arg in parsed["out"]]
    got = ([tuple(a) for a in sig.in_ax_names], [tuple(a) for a in sig.in_ax_positions],
           [tuple(a) for a in sig.out_ax_names], [tuple(a) for a in sig.out_ax_positions])
    if got != (want_in_names, want_in_pos, want_out_names, want_out_pos):
        raise Violation("parsed names/positions are not those written", signature=text, got=jsonable(got),
                        expected=jsonable((want_in_names, want_in_pos, want_out_names, want_out_pos)))
    printed = str(sig)
    if printed != S.render(parsed):
        raise Violation("str(parse(s)) differs from s (spaces aside)", signature=text, printed=printed)
    try:
        again = _GridUFuncSignature.from_string(printed)
    except Exception as e:  # noqa: BLE001
        raise Violation("printed signature does not re-parse", printed=printed, exception=type(e).__name__)
    if str(again) != printed:
        raise Violation("re-parse is not a fixed point", printed=printed, again=str(again))
    return sig


def must_reject(text, reason):
    from xgcm.grid_ufunc import _GridUFuncSignature

    try:
        sig = _GridUFuncSignature.from_string(text)
    except Exception:  # noqa: BLE001
        return
    raise Violation("malformed signature accepted", signature=text, why_malformed=reason, parsed_as=str(sig))


def check_equivalence(p1, p2, what):
    from xgcm.grid_ufunc import _GridUFuncSignature

    s1 = _GridUFuncSignature.from_string(S.render(p1))
    s2 = _GridUFuncSignature.from_string(S.render(p2))
    want = S.canonical(p1) == S.canonical(p2)
    for a, b, d in ((s1, s2, "a~b"), (s2, s1, "b~a")):
        try:
            got = bool(a.equivalent(b))
        except Exception as e:  # noqa: BLE001
            raise Violation(f"equivalent() raised ({what})", a=str(a), b=str(b), exception=type(e).__name__)
        if got != want:
            raise Violation(f"equivalent() is not 'consistent renaming' ({what}, {d})", a=str(a), b=str(b), got=got, expected=want)
    return want


# ------------------------------------------------------------------ exhaustive parts
def _args_upto(names, max_pairs):
    pairs = [(n, p) for n in names for p in POS]
    out = [[]]
    for k in range(1, max_pairs + 1):
        out.extend([list(c) for c in itertools.product(pairs, repeat=k)])
    return out


def _enum_chunk(job):
    kind, tier, lo, hi = job
    import warnings

    warnings.simplefilter("ignore")
    names = ["a", "t"]
    n_eval = 0
    nontriv = 0
    samples = []
    unspecified = 0
    klass = {}
    try:
        if kind == "wellformed":
            args_in = _args_upto(names, 2)
            args_out = _args_upto(names, 1 if tier == "quick" else 2)
            inputs = [[a] for a in args_in] + [[a, b] for a in args_in for b in args_in]
            ren = {"a": "leftish", "t": "b"}
            for inp in inputs[lo:hi]:
                for out in args_out:
                    parsed = {"in": inp, "out": [out]}
                    text = S.render(parsed)
                    accept_and_roundtrip(text, parsed)
                    n_eval += 1
                    npairs = sum(len(a) for a in inp) + len(out)
                    if npairs >= 2:
                        nontriv += 1
                    # equivalence with itself and with a renaming, every 7th (cost)
                    if n_eval % 7 == 0:
                        check_equivalence(parsed, S.rename(parsed, ren), "enumerated renaming")
                        klass["equiv-checked"] = klass.get("equiv-checked", 0) + 1
                    if len(samples) < 2 and n_eval % 1013 == 1:
                        samples.append({"signature": text})
        else:  # corruptions
            maxp = 1 if tier == "quick" else 2
            args_in = _args_upto(names, maxp)
            args_out = _args_upto(names, 1)
            base = [({"in": [a], "out": [o]}) for a in args_in for o in args_out]
            for parsed in base[lo:hi]:
                text = S.render(parsed)
                variants = set()
                for i in range(len(text)):
                    variants.add(text[:i] + text[i + 1:])
                    for ch in ALPHABET:
                        if ch != text[i]:
                            variants.add(text[:i] + ch + text[i + 1:])
                for i in range(len(text) + 1):
                    for ch in ALPHABET:
                        variants.add(text[:i] + ch + text[i:])
                for v in sorted(variants):
                    verdict, info = S.classify(v)
                    n_eval += 1
                    klass[verdict] = klass.get(verdict, 0) + 1
                    if verdict == "well-formed":
                        accept_and_roundtrip(v, info)
                    elif verdict == "malformed":
                        must_reject(v, info)
                        nontriv += 1
                    else:
                        unspecified += 1
                    if len(samples) < 2 and n_eval % 4099 == 1:
                        samples.append({"corrupted": v, "of": text, "verdict": verdict, "why": info if isinstance(info, str) else None})
    except Violation as v:
        if "a" in v.details and "b" in v.details:
            fcase = {"kind": "equiv", "a": v.details["a"], "b": v.details["b"]}
        else:
            fcase = {"kind": "string", "text": v.details.get("signature") or v.details.get("printed") or ""}
        return {"n": n_eval, "nt": nontriv, "samples": samples, "unspecified": unspecified, "classes": klass,
                "failure": {"case": fcase, "what": v.what, "details": jsonable(v.details)}}
    return {"n": n_eval, "nt": nontriv, "samples": samples, "unspecified": unspecified, "classes": klass, "failure": None}


def exhaustive_part(tier, seed):
    n_in = 111 + 111 * 111
    jobs = []
    step = 64
    for lo in range(0, n_in, step):
        jobs.append(("wellformed", tier, lo, min(n_in, lo + step)))
    n_base = (11 if tier == "quick" else 111) * 11
    for lo in range(0, n_base, 8):
        jobs.append(("corrupt", tier, lo, min(n_base, lo + 8)))
    ctx = mp.get_context("spawn")
    with ctx.Pool(16) as pool:
        outs = pool.map(_enum_chunk, jobs, chunksize=4)
    res = {"evaluations": 0, "nontrivial": [], "classes": {}, "samples": [], "failure": None, "excluded": {}, "notes": {},
           "harness_error": None, "budget_hit": False, "exhaustive": True, "nt_extra": 0}
    nt = 0
    wf = 0
    cor = 0
    for job, o in zip(jobs, outs):
        res["evaluations"] += o["n"]
        nt += o["nt"]
        if job[0] == "wellformed":
            wf += o["n"]
        else:
            cor += o["n"]
        for k, v in o["classes"].items():
            res["classes"]["enum:" + k] = res["classes"].get("enum:" + k, 0) + v
        res["notes"]["unspecified_skipped"] = res["notes"].get("unspecified_skipped", 0) + o["unspecified"]
        if len(res["samples"]) < 6:
            res["samples"].extend({"case": s, "classes": ["enumerated"], "nontrivial": True} for s in o["samples"][:1])
        if o["failure"] and res["failure"] is None:
            res["failure"] = o["failure"]
    # every enumerated string is distinct by construction; count them without hashing each
    res["nt_extra"] = nt
    return {"result": res, "extra": {"enumerated_wellformed": wf, "enumerated_corruptions": cor,
                                     "enumerated_distinct_nontrivial": nt}}


# ------------------------------------------------------------------ Hypothesis part
@st.composite
def signatures(draw, names):
    def arg():
        k = draw(st.integers(0, 2))
        return [[draw(st.sampled_from(names)), draw(st.sampled_from(POS))] for _ in range(k)]

    n_in = draw(st.integers(1, 3))
    n_out = draw(st.integers(1, 2))
    return {"in": [arg() for _ in range(n_in)], "out": [arg() for _ in range(n_out)]}


@st.composite
def strategy_impl(draw, tier):
    names = draw(st.lists(st.sampled_from(HOSTILE), min_size=1, max_size=3, unique=True))
    sig = draw(signatures(names))
    targets = draw(st.lists(st.sampled_from(HOSTILE), min_size=len(names), max_size=len(names), unique=True))
    mode = draw(st.sampled_from(["rename", "rename", "merge", "edit-pos", "edit-name", "swap-names"]))
    edit = None
    slots = [(k, i, j) for k in ("in", "out") for i, a in enumerate(sig[k]) for j in range(len(a))]
    if mode.startswith("edit") and slots:
        edit = [draw(st.sampled_from(slots)), draw(st.sampled_from(POS)), draw(st.sampled_from(HOSTILE))]
    spaces = draw(st.lists(st.integers(0, 60), max_size=3))
    axis_name = draw(st.sampled_from(HOSTILE))
    return {"names": names, "sig": sig, "targets": targets, "mode": mode, "edit": edit, "spaces": spaces,
            "param_names": list(draw(st.permutations(["v", "dx", "u", "a", "q", "w", "area", "B", "b", "A", "z9", "z10"]))[:3]),
            # several outputs are hinted as a tuple: typing.Tuple[...] or the builtin generic tuple[...]
            "tuple_builtin": draw(st.booleans()),
            "axis_name": axis_name, "shift": draw(st.sampled_from([list(s) for s in SHIFTS])),
            "op": draw(st.sampled_from(["diff", "interp", "min", "max"]))}


SHIFTS = [("center", p) for p in ("left", "right", "inner", "outer")] + [(p, "center") for p in ("left", "right", "inner", "outer")]
BAD_SHIFTS = [("left", "right"), ("center", "center"), ("inner", "outer"), ("left", "left")]


def strategy(tier):
    return strategy_impl(tier)


def as_parsed(sig):
    return {k: [[(n, p) for n, p in arg] for arg in sig[k]] for k in ("in", "out")}


def check_string_case(case):
    """Replay of a failure found by the enumerated parts."""
    if case["kind"] == "string":
        verdict, info = S.classify(case["text"])
        if verdict == "well-formed":
            accept_and_roundtrip(case["text"], info)
        elif verdict == "malformed":
            must_reject(case["text"], info)
        return {"nontrivial": True, "classes": ["replayed-string:" + verdict]}
    va, pa = S.classify(case["a"])
    vb, pb = S.classify(case["b"])
    if va != "well-formed" or vb != "well-formed":
        raise AssertionError("equiv replay needs two well-formed signatures")
    accept_and_roundtrip(case["a"], pa)
    accept_and_roundtrip(case["b"], pb)
    check_equivalence(pa, pb, "replayed pair")
    return {"nontrivial": True, "classes": ["replayed-equiv"]}


def check(case, ctx):
    if "kind" in case:
        return check_string_case(case)
    from xgcm import gridops
    from xgcm.grid import _select_grid_ufunc
    from xgcm.grid_ufunc import GridUFunc, _GridUFuncSignature

    p1 = as_parsed(case["sig"])
    text = S.render(p1)
    spaced = text
    for k in case["spaces"]:
        k = min(k, len(spaced))
        spaced = spaced[:k] + " " + spaced[k:]
    verdict, info = S.classify(spaced)
    if verdict != "well-formed":
        raise AssertionError("generator produced a non-well-formed signature: " + spaced)
    accept_and_roundtrip(spaced, p1)

    names = case["names"]
    mode = case["mode"]
    if mode in ("rename", "swap-names"):
        mapping = dict(zip(names, case["targets"])) if mode == "rename" else dict(zip(names, names[1:] + names[:1]))
        p2 = S.rename(p1, mapping)
    elif mode == "merge":
        mapping = {n: case["targets"][0] for n in names}
        p2 = S.rename(p1, mapping)
    else:
        p2 = as_parsed(case["sig"])
        if case["edit"]:
            (k, i, j), pos, nm = case["edit"]
            n0, q0 = p2[k][i][j]
            p2[k][i][j] = (n0, pos) if mode == "edit-pos" else (nm, q0)
    want = check_equivalence(p1, p2, mode)
    check_equivalence(p1, p1, "reflexive")

    # Annotated type hints denote the same signature as the string
    if all(len(a) > 0 for a in p1["in"]) and all(len(a) > 0 for a in p1["out"]):
        def f(*a):
            return a

        ann = {}
        params = []
        # the parameters carry drawn names in a drawn (not alphabetical) order: the signature follows the definition order
        pnames = (case.get("param_names") or []) + [f"a{i}" for i in range(len(p1["in"]))]
        for i, arg in enumerate(p1["in"]):
            ann[pnames[i]] = typing.Annotated[np.ndarray, ",".join(f"{n}:{p}" for n, p in arg)]
            params.append(pnames[i])
        rets = [typing.Annotated[np.ndarray, ",".join(f"{n}:{p}" for n, p in arg)] for arg in p1["out"]]
        ann["return"] = rets[0] if len(rets) == 1 else (tuple[tuple(rets)] if case.get("tuple_builtin") else typing.Tuple[tuple(rets)])
        src = f"def f({', '.join(params)}):\n    return None\n"
        ns = {}
        exec(src, ns)  # noqa: S102 - builds a plain function with the generated parameter list
        fn = ns["f"]
        fn.__annotations__ = ann
        try:
            guf = GridUFunc(fn, signature="")
        except Exception as e:  # noqa: BLE001
            raise Violation("Annotated type hints of a well-formed signature rejected", signature=text, exception=type(e).__name__, message=str(e)[:200])
        if str(guf.signature) != text:
            raise Violation("type hints denote another signature than the equivalent string", signature=text, from_hints=str(guf.signature))
        # binding the same annotated function again denotes the same signature, and the function keeps its annotations
        try:
            guf2 = GridUFunc(fn, signature="")
        except Exception as e:  # noqa: BLE001
            raise Violation("second binding of the same type-hinted function rejected", signature=text, exception=type(e).__name__, message=str(e)[:200])
        if str(guf2.signature) != text:
            raise Violation("second binding of the same type-hinted function denotes another signature", signature=text, second=str(guf2.signature))
        if set(fn.__annotations__) != set(ann):
            raise Violation("binding a type-hinted function modified its annotations", before=sorted(ann), after=sorted(fn.__annotations__))

    # the predefined operations are found for an axis of any name
    ax = case["axis_name"]
    frm, to = case["shift"]
    s1d = S.render({"in": [[(ax, frm)]], "out": [[(ax, to)]]})
    try:
        sig = _GridUFuncSignature.from_string(s1d)
        uf, _ = _select_grid_ufunc(case["op"], sig, module=gridops)
    except Exception as e:  # noqa: BLE001
        raise Violation("predefined operation not found for this axis name", signature=s1d, op=case["op"], exception=type(e).__name__, message=str(e)[:200])
    expect_name = f"{case['op']}_{frm}_to_{to}"
    if getattr(gridops, expect_name) is not uf:
        raise Violation("wrong predefined operation selected", signature=s1d, expected=expect_name, got=repr(uf)[:120])
    for bf, bt in BAD_SHIFTS:
        sbad = S.render({"in": [[(ax, bf)]], "out": [[(ax, bt)]]})
        try:
            got = _select_grid_ufunc(case["op"], _GridUFuncSignature.from_string(sbad), module=gridops)
        except Exception:  # noqa: BLE001
            continue
        if not (case["op"] == "diff" and (bf, bt) == ("left", "inner")):
            raise Violation("an operation was selected for a shift that has none", signature=sbad, got=repr(got[0])[:120])

    hostile = any(n not in ("X", "Y", "a", "b") for n in names) or ax not in ("X", "Y")
    classes = [f"mode:{mode}", f"equiv:{want}", f"nnames:{len(names)}", f"nin:{len(p1['in'])}", f"nout:{len(p1['out'])}"]
    if case["spaces"]:
        classes.append("spaces")
    return {"nontrivial": len(names) >= 2 or hostile, "classes": classes}
