"""C11 - grid ufuncs receive padded core dims last and return declared positions.

Oracle: reference padded-argument model (index-level padding of C02 on the input transposed
so that its signature axes are last in signature order), observed through a recording user
function; option routes (definition time / type hints / call time) must agree and call time
must win."""
import typing

import numpy as np
from hypothesis import strategies as st

from vfw import build, gen
from vfw.core import Violation, must_return
from vfw.model import stencil as M

PROPERTY = "C11"
SIZES = {"quick": 4000, "thorough": 80000}
RULE = (
    "Hypothesis draws a grid (1-3 axes, any position sets, 3-5 cells), a signature with 1-3 inputs, 0-2 outputs and 1-2 dummy "
    "axes per input (dummy names incl. hostile ones), an injective binding of dummy to real axes, input arrays on the named "
    "positions with 0-2 shared extra dims and a drawn dim order each, boundary_width (0..2 per side) naming dummies present in "
    "every input, rule / fill value spelled as scalar or mapping, pad_before_func, and for every option where it is supplied: "
    "at definition (as_grid_ufunc arguments, signature as string or Annotated type hints), at call time, or both with "
    "different values. The user function records what it receives and returns index-coded arrays of the shapes the output "
    "positions require. Oracle: reference padding of each transposed input; outputs on the output positions' dims of the "
    "bound real axes; definition-time options == call-time options; call-time overrides. A mis-positioned input must be "
    "rejected. Non-trivial = some width > 0 and some option supplied at definition time with a non-default value; distinct = "
    "canonical JSON."
)
ASSUMPTIONS = [
    "all inputs share the same extra (broadcast) dimensions, so the unified broadcast order is that of the first input",
    "cells new along two axes are compared except under two different fill values (as in C02)",
]
DUMMIES = ["a", "b", "t", "le", "X", "dummy", "n1"]


@st.composite
def strategy_impl(draw, tier):
    axes = draw(gen.layouts(max_axes=3, min_n=3, max_n=5, max_cells=200, allow_default_shifts=False))
    names = [a["name"] for a in axes]
    by = {a["name"]: a for a in axes}
    ndum = draw(st.integers(1, min(3, len(names))))
    dummies = draw(st.lists(st.sampled_from(DUMMIES), min_size=ndum, max_size=ndum, unique=True))
    reals = draw(st.permutations(names))[:ndum]
    bind = dict(zip(dummies, reals))
    n_in = draw(st.integers(1, 3))
    sig_in = []
    for i in range(n_in):
        k = draw(st.integers(1, ndum))
        ds_ = draw(st.permutations(dummies))[:k]
        if i == 0 and k < ndum and draw(st.booleans()):
            ds_ = list(dummies)  # make sure all dummies appear somewhere in the inputs
        sig_in.append([[d, draw(st.sampled_from(by[bind[d]]["positions"]))] for d in ds_])
    used = []
    for arg in sig_in:
        for d, _ in arg:
            if d not in used:
                used.append(d)
    n_out = draw(st.integers(0, 2))
    sig_out = []
    for _ in range(max(1, n_out)):
        if n_out == 0:
            sig_out.append([])
            continue
        k = draw(st.integers(0, len(used)))
        ds_ = draw(st.permutations(used))[:k]
        sig_out.append([[d, draw(st.sampled_from(by[bind[d]]["positions"]))] for d in ds_])
    common = [d for d in used if all(any(d == x for x, _ in arg) for arg in sig_in)]
    pad_before = draw(st.sampled_from([True, True, False]))
    if not pad_before:
        common = [d for d in common if all(any(d == x for x, _ in arg) for arg in sig_out)] if n_out else []
    want_bw = draw(st.sampled_from([1, 1, 1, 0]))
    bw_names = draw(st.lists(st.sampled_from(common), unique=True, min_size=want_bw, max_size=len(common))) if common else []
    bw = {d: [draw(st.sampled_from([1, 2, 0, 3])), draw(st.sampled_from([1, 0, 2, 3]))] for d in bw_names} or None
    if not pad_before and bw:
        # outputs must keep a positive length after removing the widths
        for arg in sig_out:
            for d, p in arg:
                if d in bw:
                    L = gen.pos_len(by[bind[d]]["n"], p)
                    lo, hi = bw[d]
                    while lo + hi >= L:
                        if hi:
                            hi -= 1
                        else:
                            lo -= 1
                    bw[d] = [lo, hi]
    extra = draw(gen.extra_dims())
    inputs = []
    for arg in sig_in:
        dims = [gen.dim_name(bind[d], p) for d, p in arg] + [e[0] for e in extra]
        sizes = {gen.dim_name(bind[d], p): gen.pos_len(by[bind[d]]["n"], p) for d, p in arg}
        sizes.update({e[0]: e[1] for e in extra})
        order = draw(gen.permutations_of(dims))
        inputs.append({"dims": order, "values": draw(gen.data_values([sizes[d] for d in order], elements=st.integers(-9, 9).map(float)))})
    real_used = [bind[d] for d in used]

    def opt(values):
        # where an option is supplied: def / call / both (different values) / nowhere
        where = draw(st.sampled_from(["def", "both", "call", "none"]))
        v1, v2 = draw(values), draw(values)
        return {"where": where, "def": v1, "call": v2}

    def partial(vals):
        # a mapping naming only some of the axes leaves the others to the Grid's settings
        return st.sets(st.sampled_from(names), min_size=1).flatmap(lambda sub: st.fixed_dictionaries({r: vals for r in sorted(sub)}))

    bvals = st.one_of(st.sampled_from(M.RULES), st.fixed_dictionaries({r: st.sampled_from(M.RULES) for r in names}), partial(st.sampled_from(M.RULES)))
    # zero is a value like any other (a call-time 0 must override a definition-time 5)
    fvals = st.one_of(st.sampled_from([0.0, 1.0, -2.0, 7.5, 0]), st.fixed_dictionaries({r: st.sampled_from([1.0, -2.0, 7.5, 0.0]) for r in names}),
                      partial(st.sampled_from([1.0, -2.0, 7.5, 0.0])))
    return {
        "axes": axes, "sig_in": sig_in, "sig_out": sig_out, "n_out": n_out, "bind": bind, "extra": extra, "inputs": inputs,
        "tuple_builtin": draw(st.booleans()),   # several outputs hinted as typing.Tuple[...] or as the builtin generic tuple[...]
        "bw": bw, "bw_where": draw(st.sampled_from(["def", "call", "both"])), "pad_before": pad_before,
        # widths bound at definition time when the real ones are given at call time as well ("both"): they must be overridden
        "bw_decoy": {d: [draw(st.integers(0, 2)), draw(st.integers(0, 2))] for d in (bw or {})},
        "pad_before_where": draw(st.sampled_from(["def", "call", "both"])),
        "boundary": opt(bvals), "fill_value": opt(fvals),
        "route": draw(st.sampled_from(["decorator-string", "decorator-hints", "apply"])),
        # the very same GridUFunc object is used with another Grid (other axis defaults) first
        "other_grid_first": draw(st.booleans()),
        # how the boolean options are spelled: Python bools, numpy bools (the result of a numpy comparison), or 0 / 1
        "flag_style": draw(st.sampled_from(["python", "python", "numpy", "int"])),
        "grid": draw(gen.grid_settings(names, exotic=False)),
        "misplace": draw(st.booleans()),
        "lazy": draw(st.sampled_from(["no", "def", "call", "both"])),
    }


def strategy(tier):
    return strategy_impl(tier)


def sig_string(case):
    def side(args):
        return ",".join("(" + ",".join(f"{d}:{p}" for d, p in arg) + ")" for arg in args)

    return side(case["sig_in"]) + "->" + side(case["sig_out"])


def effective(opt):
    if opt["where"] in ("call", "both"):
        return opt["call"]
    if opt["where"] == "def":
        return opt["def"]
    return None


def check(case, ctx):
    import xarray as xr
    from xgcm import as_grid_ufunc
    from xgcm.grid_ufunc import apply_as_grid_ufunc

    axes = case["axes"]
    names = [a["name"] for a in axes]
    by = {a["name"]: a for a in axes}
    bind = case["bind"]
    enames = [e[0] for e in case["extra"]]
    ds = build.make_dataset(axes, [(e[0], e[1]) for e in case["extra"]])
    grid = must_return("Grid construction", build.make_grid, ds, axes, **build.grid_kwargs(case["grid"]))
    g_rules, g_fills = M.grid_level_rule(names, case["grid"]["periodic"], case["grid"]["boundary"], case["grid"]["fill_value"])
    route = case["route"]
    if route == "apply":
        # everything is supplied at call time
        for k in ("boundary", "fill_value"):
            if case[k]["where"] in ("def", "both"):
                case = dict(case, **{k: dict(case[k], where="call" if case[k]["where"] == "both" else "none")})
    rules, fills = M.rule_in_force(names, g_rules, g_fills, effective(case["boundary"]), effective(case["fill_value"]))
    bw = case["bw"]
    pad_before = case["pad_before"]

    in_core = [[gen.dim_name(bind[d], p) for d, p in arg] for arg in case["sig_in"]]
    out_core = [[gen.dim_name(bind[d], p) for d, p in arg] for arg in case["sig_out"]]
    first_extra = [d for d in case["inputs"][0]["dims"] if d in enames]
    lead_shape = [dict(case["extra"])[e] if isinstance(case["extra"], dict) else {x[0]: x[1] for x in case["extra"]}[e] for e in first_extra]

    def out_shape(k):
        shp = []
        for d, p in case["sig_out"][k]:
            L = gen.pos_len(by[bind[d]]["n"], p)
            if bw and d in bw and not pad_before:
                L -= bw[d][0] + bw[d][1]
            shp.append(L)
        return shp

    record = []

    def recorder(*arrays):
        record.append([np.array(a, dtype=np.float64) for a in arrays])
        outs = []
        for k in range(len(case["sig_out"])):
            shp = lead_shape + out_shape(k)
            outs.append(1000.0 * (k + 1) + np.arange(int(np.prod(shp, dtype=int)), dtype=np.float64).reshape(shp))
        return outs[0] if len(outs) == 1 else tuple(outs)

    # another grid ufunc with other options, applied on the same Grid first: nothing of it may leak into the one under test
    a0 = axes[0]
    d0 = gen.dim_name(a0["name"], "center")
    decoy = as_grid_ufunc(signature="(q:center)->(q:center)", boundary_width={"q": (2, 1)}, boundary="extend", fill_value=-3.0)(lambda a: a[..., 2:-1])
    try:
        decoy(grid, xr.DataArray(np.arange(float(a0["n"])), dims=[d0]), axis=[(a0["name"],)])
    except Exception:  # noqa: BLE001 - only there to leave traces, if any
        pass
    das = [xr.DataArray(np.asarray(i["values"], dtype=np.float64), dims=i["dims"]) for i in case["inputs"]]
    axis_arg = [tuple(bind[d] for d, _ in arg) for arg in case["sig_in"]]
    call_kw = {}
    def_kw = {}
    for k in ("boundary", "fill_value"):
        o = case[k]
        if o["where"] in ("def", "both"):
            def_kw[k] = build.copy_arg(o["def"])
        if o["where"] in ("call", "both"):
            call_kw[k] = build.copy_arg(o["call"])
    pbw = case["pad_before_where"] if route != "apply" else "call"
    flag = {"python": bool, "numpy": np.bool_, "int": int}[case.get("flag_style", "python")]
    if pbw in ("def", "both"):
        def_kw["pad_before_func"] = flag(pad_before if pbw == "def" else (not pad_before))
    if pbw in ("call", "both"):
        call_kw["pad_before_func"] = flag(pad_before)
    bw_arg = {d: tuple(w) for d, w in bw.items()} if bw else None
    bw_where = case["bw_where"] if route != "apply" else "call"

    if route == "apply":
        got = must_return("Grid.apply_as_grid_ufunc", grid.apply_as_grid_ufunc, recorder, *das, axis=axis_arg, signature=sig_string(case),
                          boundary_width=bw_arg, **call_kw)
    else:
        if route == "decorator-hints" and all(len(a) for a in case["sig_in"]) and (case["n_out"] == 0 or all(len(a) for a in case["sig_out"])):
            params = [f"x{i}" for i in range(len(das))]
            ns = {"_rec": recorder}
            exec(f"def f({', '.join(params)}):\n    return _rec({', '.join(params)})\n", ns)  # noqa: S102
            fn = ns["f"]
            ann = {p: typing.Annotated[np.ndarray, ",".join(f"{d}:{q}" for d, q in arg)] for p, arg in zip(params, case["sig_in"])}
            if case["n_out"]:
                rets = [typing.Annotated[np.ndarray, ",".join(f"{d}:{q}" for d, q in arg)] for arg in case["sig_out"]]
                ann["return"] = rets[0] if len(rets) == 1 else (tuple[tuple(rets)] if case.get("tuple_builtin") else typing.Tuple[tuple(rets)])
            fn.__annotations__ = ann
            sig_kw = {}
        else:
            fn = recorder
            sig_kw = {"signature": sig_string(case)}
        def elsewhere_first(guf, **kw):
            if not case.get("other_grid_first"):
                return
            g2 = build.make_grid(ds, axes, periodic=False, boundary={n: ("fill" if g_rules[n] != "fill" else "extend") for n in names},
                                 fill_value={n: float(g_fills[n]) + 13.0 for n in names})
            try:
                guf(g2, *das, axis=axis_arg, **kw, **{k: build.copy_arg(v) for k, v in call_kw.items()})
            except Exception:  # noqa: BLE001 - only there to leave traces on the ufunc object, if any
                pass
            record.clear()

        if bw_where == "def":
            guf = must_return("as_grid_ufunc", lambda: as_grid_ufunc(boundary_width=bw_arg, **sig_kw, **def_kw)(fn))
            elsewhere_first(guf)
            got = must_return("GridUFunc call", guf, grid, *das, axis=axis_arg, **call_kw)
        elif bw_where == "both" and bw_arg is not None:
            decoy = {d: tuple(w) for d, w in case["bw_decoy"].items()}
            guf = must_return("as_grid_ufunc", lambda: as_grid_ufunc(boundary_width=decoy, **sig_kw, **def_kw)(fn))
            elsewhere_first(guf, boundary_width=bw_arg)
            got = must_return("GridUFunc call overriding boundary_width", guf, grid, *das, axis=axis_arg, boundary_width=bw_arg, **call_kw)
        else:
            guf = must_return("as_grid_ufunc", lambda: as_grid_ufunc(**sig_kw, **def_kw)(fn))
            extra_kw = {"boundary_width": bw_arg} if bw_arg is not None else {}
            elsewhere_first(guf, **extra_kw)
            got = must_return("GridUFunc call with call-time boundary_width", guf, grid, *das, axis=axis_arg, **extra_kw, **call_kw)

    if len(record) != 1:
        raise Violation("user function was not called exactly once", calls=len(record))
    received = record[0]
    if len(received) != len(das):
        raise Violation("user function received a different number of arguments", got=len(received), expected=len(das))

    # ---- arguments received
    for i, (inp, arg) in enumerate(zip(case["inputs"], case["sig_in"])):
        dims = list(inp["dims"])
        target = first_extra + in_core[i]
        a = np.transpose(np.asarray(inp["values"], dtype=np.float64), [dims.index(d) for d in target])
        comparable = np.ones(a.shape, bool)
        if bw and pad_before:
            fill_axes = []
            for d, (lo, hi) in bw.items():
                r = bind[d]
                k = target.index(gen.dim_name(r, dict((x, y) for x, y in arg)[d]))
                a = M.pad(a, k, lo, hi, rules[r], fills[r])
                isnew = np.zeros(a.shape[k], int)
                isnew[:lo] = 1
                if hi:
                    isnew[-hi:] = 1
                shp = [1] * a.ndim
                shp[k] = a.shape[k]
                if rules[r] == "fill":
                    fill_axes.append((fills[r], k, isnew.reshape(shp)))
            comparable = np.ones(a.shape, bool)
            for x in range(len(fill_axes)):
                for y in range(x + 1, len(fill_axes)):
                    if fill_axes[x][0] != fill_axes[y][0]:
                        comparable &= ~((fill_axes[x][2] + fill_axes[y][2]) == 2)
        rec = received[i]
        if rec.shape != a.shape:
            raise Violation("argument received by the user function has the wrong shape (core dims not last in signature order, or "
                            "not extended by exactly boundary_width)", argument=i, got=list(rec.shape), expected=list(a.shape),
                            signature=sig_string(case), boundary_width=bw, pad_before_func=pad_before, route=route)
        bad = comparable & (rec != a)
        if bad.any():
            idx = tuple(int(x) for x in np.argwhere(bad)[0])
            raise Violation("argument received by the user function differs from the reference padding", argument=i, index=list(idx),
                            got=float(rec[idx]), expected=float(a[idx]), rules=rules, fills=fills, options={k: case[k] for k in ("boundary", "fill_value")},
                            route=route, bw_where=bw_where)

    # ---- outputs
    outs = tuple(got) if isinstance(got, (tuple, list)) else (got,)
    if len(outs) != len(case["sig_out"]):
        raise Violation("number of outputs", got=len(outs), expected=len(case["sig_out"]))
    for k, o in enumerate(outs):
        want_dims = first_extra + out_core[k]
        if list(o.dims) != want_dims:
            raise Violation("output is not on the dimensions of the signature's output positions of the bound real axes", output=k,
                            got=list(o.dims), expected=want_dims, signature=sig_string(case), bind=bind)
        shp = lead_shape + out_shape(k)
        a = 1000.0 * (k + 1) + np.arange(int(np.prod(shp, dtype=int)), dtype=np.float64).reshape(shp)
        comparable = np.ones(a.shape, bool)
        if bw and not pad_before:
            fl = []
            for d, (lo, hi) in bw.items():
                r = bind[d]
                kk = want_dims.index(gen.dim_name(r, dict((x, y) for x, y in case["sig_out"][k])[d]))
                a = M.pad(a, kk, lo, hi, rules[r], fills[r])
                if rules[r] == "fill":
                    isnew = np.zeros(a.shape[kk], int)
                    isnew[:lo] = 1
                    if hi:
                        isnew[-hi:] = 1
                    s2 = [1] * a.ndim
                    s2[kk] = a.shape[kk]
                    fl.append((fills[r], isnew.reshape(s2)))
            comparable = np.ones(a.shape, bool)
            for x in range(len(fl)):
                for y in range(x + 1, len(fl)):
                    if fl[x][0] != fl[y][0]:
                        comparable &= ~((fl[x][1] + fl[y][1]) == 2)
        ov = np.asarray(o.values)
        if ov.shape != a.shape or (comparable & (ov != a)).any():
            raise Violation("output values/shape differ from what the user function returned (plus padding after the function)", output=k,
                            got_shape=list(ov.shape), expected_shape=list(a.shape), pad_before_func=pad_before)

    # ---- `dask` bound at definition time acts as if passed at call time; the call-time value wins
    lazy = case.get("lazy", "no")
    if lazy != "no" and route != "apply" and pad_before:
        import dask

        lazy_das = [d.chunk() for d in das]
        d2, c2 = dict(def_kw), dict(call_kw)
        d2["pad_before_func"] = True
        c2.pop("pad_before_func", None)
        if lazy in ("def", "both"):
            d2["dask"] = "parallelized" if lazy == "def" else "forbidden"
        if lazy in ("call", "both"):
            c2["dask"] = "parallelized"
        guf2 = must_return("as_grid_ufunc(dask=...)", lambda: as_grid_ufunc(boundary_width=bw_arg, **sig_kw, **d2)(fn))
        del record[:]
        got2 = must_return(f"GridUFunc call on dask-backed input (dask supplied at: {lazy})", guf2, grid, *lazy_das, axis=axis_arg, **c2)
        outs2 = tuple(got2) if isinstance(got2, (tuple, list)) else (got2,)
        for k, (o2, o1) in enumerate(zip(outs2, outs)):
            if not dask.is_dask_collection(o2.data):
                raise Violation("result of a dask-backed input is not lazy although dask='parallelized' is in force", supplied_at=lazy)
            if list(o2.dims) != list(o1.dims) or not np.array_equal(np.asarray(o2.compute().values), np.asarray(o1.values)):
                raise Violation("dask='parallelized' bound at definition/call time gives another result than the in-memory call", output=k, supplied_at=lazy)
        # the reverse binding: parallelized at definition, forbidden at call time -> the call-time value must win (refusal)
        d3 = dict(d2, dask="parallelized")
        c3 = dict(c2, dask="forbidden")
        guf3 = as_grid_ufunc(boundary_width=bw_arg, **sig_kw, **d3)(fn)
        try:
            guf3(grid, *lazy_das, axis=axis_arg, **c3)
        except Exception:  # noqa: BLE001
            pass
        else:
            raise Violation("call-time dask='forbidden' did not override definition-time dask='parallelized' (dask-backed input was accepted)")

    # ---- an input that is not on the position the signature names is rejected
    if case["misplace"]:
        d, p = case["sig_in"][0][0]
        r = bind[d]
        others = [q for q in by[r]["positions"] if q != p]
        if others:
            q = others[0]
            inp = case["inputs"][0]
            dims = [gen.dim_name(r, q) if x == gen.dim_name(r, p) else x for x in inp["dims"]]
            shape = [gen.pos_len(by[r]["n"], q) if x == gen.dim_name(r, q) else np.shape(inp["values"])[j] for j, x in enumerate(dims)]
            wrong = xr.DataArray(np.zeros(shape), dims=dims)
            try:
                apply_as_grid_ufunc(recorder, wrong, *das[1:], axis=axis_arg, grid=grid, signature=sig_string(case))
            except Exception:  # noqa: BLE001
                pass
            else:
                raise Violation("an input not located on the position the signature names was accepted", signature=sig_string(case),
                                given_position=q)

    some_width = bool(bw) and any(w[0] or w[1] for w in bw.values())
    def_nondefault = route != "apply" and (case["boundary"]["where"] in ("def", "both") or case["fill_value"]["where"] in ("def", "both")
                                           or (bw_where == "def" and some_width))
    classes = [f"route:{route}", f"lazy:{lazy if (route != 'apply' and pad_before) else 'no'}", f"nin:{len(das)}", f"nout:{case['n_out']}", f"pad_before:{pad_before}", f"bw:{bw_where if bw else 'none'}",
               f"boundary:{case['boundary']['where']}", f"fill:{case['fill_value']['where']}", f"ndummy:{len(bind)}"]
    return {"nontrivial": bool(some_width and def_nondefault), "classes": classes}
