"""C16 - the metric registry reflects exactly what was registered, in any batching.

Hypothesis *stateful* machine over registration histories; the model is an ordered map
slot (axes, position tuple) -> variable.  A failing history is stored as plain JSON and is
replayed by `check` without Hypothesis."""
import time
import traceback

import numpy as np
from hypothesis import strategies as st

from vfw.core import Ctx, Violation, canon, jsonable

PROPERTY = "C16"
SIZES = {"quick": 3200, "thorough": 30000}
RULE = (
    "Hypothesis RuleBasedStateMachine: a dataset with a pool of 10 metric variables (two axis sets {X} and {X,Y}; several "
    "positions, two variables per some positions so that overwriting is meaningful); rules: construct(metrics=...) once, "
    "register(key spelled as str/tuple/list in either axis order, 1-3 variables at pairwise different positions, overwrite), "
    "query(position) (get_metric lookup), up to 4 registration calls per history. Model: ordered slot map; invariant after "
    "every step: grid._metrics holds exactly the model's variables per axis set and get_metric at every occupied position "
    "returns the model's variable; refused calls leave every slot unchanged; at the end the same registrations replayed one "
    "variable per call on a fresh Grid give the same get_metric answers at every position. Non-trivial = a batch (>=2 "
    "variables) into an axis set that already has metrics, or an overwrite; distinct = canonical JSON of the history."
)
ASSUMPTIONS = [
    "a batch is modelled exactly as the statement says - as its variables registered one at a time in order: the variables before "
    "the first refused one are registered, the call raises, later variables are not reached",
]

# pool: name -> (axes, positions)
POOL = {
    "mx_c1": (("X",), ("center",)), "mx_c2": (("X",), ("center",)), "mx_l": (("X",), ("left",)), "mx_r": (("X",), ("right",)),
    "mx_o": (("X",), ("outer",)), "mx_l2": (("X",), ("left",)),
    "mxy_cc": (("X", "Y"), ("center", "center")), "mxy_cc2": (("X", "Y"), ("center", "center")),
    "mxy_lc": (("X", "Y"), ("left", "center")), "mxy_cl": (("X", "Y"), ("center", "left")),
    # the same positions stored with the dimensions in the other order (a slot is a position, not a memory layout)
    "mxy_cc_t": (("X", "Y"), ("center", "center")), "mxy_lc_t": (("X", "Y"), ("left", "center")),
}
XPOS = {"center": "xc", "left": "xl", "right": "xr", "outer": "xo"}
YPOS = {"center": "yc", "left": "yl"}
N = 3


def make_ds():
    import xarray as xr

    coords = {"xc": ("xc", np.arange(N) + 0.5), "xl": ("xl", np.arange(N) * 1.0), "xr": ("xr", np.arange(N) + 1.0),
              "xo": ("xo", np.arange(N + 1) * 1.0), "yc": ("yc", np.arange(N) + 0.5), "yl": ("yl", np.arange(N) * 1.0)}
    ds = xr.Dataset(coords=coords)
    for k, (name, (axes, pos)) in enumerate(sorted(POOL.items())):
        dims = [XPOS[pos[0]]] + ([YPOS[pos[1]]] if len(axes) == 2 else [])
        if name.endswith("_t"):
            dims = dims[::-1]
        shape = [ds.sizes[d] for d in dims]
        vals = 10.0 * (k + 1) + np.arange(int(np.prod(shape))).reshape(shape) * 0.5
        ds[name] = (dims, vals)
    return ds


def new_grid(ds, metrics=None):
    from xgcm import Grid

    return Grid(ds, coords={"X": dict(XPOS), "Y": dict(YPOS)}, periodic=False, autoparse_metadata=False, metrics=metrics)


def slot_of(name):
    axes, pos = POOL[name]
    return (frozenset(axes), pos)


def spell_key(axes, spelling):
    axes = list(axes)
    if spelling == "str" and len(axes) == 1:
        return axes[0]
    if spelling.endswith("rev"):
        axes = axes[::-1]
    return tuple(axes) if spelling.startswith("tuple") else list(axes)


class History:
    """Executes a history against xgcm and the model; raises Violation."""

    def __init__(self):
        self.ds = make_ds()
        self.grid = None
        self.model = {}      # slot -> name (insertion ordered)
        self.success = []    # list of (key axes, name, overwrite) that took effect, in order
        self.ended = False
        self.nontrivial = False
        self.classes = set()

    # -- steps
    def construct(self, metrics):
        """metrics: list of [axes, spelling, [names]] (may be empty)"""
        arg = {}
        for axes, spelling, names in metrics:
            key = spell_key(axes, spelling)
            arg[tuple(key) if not isinstance(key, str) else key] = list(names)
        try:
            self.grid = new_grid(self.ds, metrics=arg or None)
        except Exception as e:  # noqa: BLE001
            raise Violation("Grid(metrics=...) with valid entries raised", exception=type(e).__name__, message=str(e)[:200], metrics=jsonable(metrics))
        for axes, spelling, names in metrics:
            for nm in names:
                self.model[slot_of(nm)] = nm
                self.success.append((tuple(axes), nm))
        # a bystander: a second Grid on the same dataset with a registry of its own that nobody touches afterwards
        self.bystander_names = names_for(("X", "Y"))[:1] + names_for(("X",))[-1:]
        try:
            self.bystander = new_grid(self.ds, metrics={("X", "Y"): self.bystander_names[:1], ("X",): self.bystander_names[1:]})
        except Exception:  # noqa: BLE001
            self.bystander = None
        self.check_registry("after construction")

    def register(self, axes, spelling, names, overwrite):
        if self.ended:
            return
        key = spell_key(axes, spelling)
        before = dict(self.model)
        fs = frozenset(axes)
        if len(names) >= 2 and any(s[0] == fs for s in self.model):
            self.nontrivial = True
            self.classes.add("batch-into-existing")
        if overwrite and any(slot_of(nm) in self.model for nm in names):
            self.nontrivial = True
            self.classes.add("overwrite")
        # the statement: a batch is equivalent to registering its variables one at a time, in order.  One at a time, the
        # variables before the first refused one are registered, the refused one raises, the rest is never reached.
        accepted, refused = [], None
        for nm in names:
            if slot_of(nm) in self.model and not overwrite:
                refused = nm
                break
            accepted.append(nm)
        if refused is not None and accepted:
            self.classes.add("mixed-conflict")
            self.nontrivial = True
        value = names[0] if (len(names) == 1 and spelling == "str") else list(names)
        try:
            # (the flag spelled as a Python bool, a numpy bool or 0/1 - by turns, derived from the step itself so that a replay is exact)
            style = (len(names) + len(self.success)) % 3
            flag = [bool, np.bool_, int][style](overwrite)
            self.grid.set_metrics(key, value, overwrite=flag)
            raised = None
        except Exception as e:  # noqa: BLE001
            raised = e
        if refused is None:
            if raised is not None:
                raise Violation("registration into free (or overwritable) slots was refused", key=jsonable(key), names=names, overwrite=overwrite,
                                exception=type(raised).__name__, message=str(raised)[:200])
            for nm in names:
                self.model[slot_of(nm)] = nm
                self.success.append((tuple(axes), nm))
            self.check_registry("after registration")
        else:
            self.classes.add("refusal")
            if raised is None:
                raise Violation("registering into an occupied slot without overwrite=True was not refused", key=jsonable(key), names=names, refused=refused)
            self.model = before
            for nm in accepted:
                self.model[slot_of(nm)] = nm
                self.success.append((tuple(axes), nm))
            self.check_registry("after a call that was refused at variable %r (the variables before it are registered, as they would be one "
                                "at a time; every other slot is as it was)" % refused)

    def query(self, xpos, ypos):
        if self.ended or self.grid is None:
            return
        import warnings
        import xarray as xr

        for axes, pos in ((("X",), (xpos,)), (("X", "Y"), (xpos, ypos))):
            slot = (frozenset(axes), pos)
            if slot in self.model:
                self.check_slot(slot, self.model[slot], "get_metric lookup")
            else:
                # a lookup at a position nothing is registered for (answered by interpolation, or refused): reading must
                # not write - the registry is what was registered
                arr = xr.DataArray(np.zeros((self.ds.sizes[XPOS[xpos]], self.ds.sizes[YPOS[ypos]])), dims=[XPOS[xpos], YPOS[ypos]])
                with warnings.catch_warnings():
                    warnings.simplefilter("ignore")
                    try:
                        self.grid.get_metric(arr, axes)
                    except Exception:  # noqa: BLE001
                        pass
                self.classes.add("query-at-free-position")
                self.check_registry("after a lookup at a position nothing is registered for")

    def finish(self):
        """Replay the successful registrations one variable per call on a fresh Grid."""
        if self.ended or self.grid is None:
            return
        fresh = new_grid(self.ds)
        for axes, nm in self.success:
            try:
                fresh.set_metrics(tuple(axes), nm, overwrite=True)
            except Exception as e:  # noqa: BLE001
                raise Violation("one-at-a-time replay raised", name=nm, exception=type(e).__name__, message=str(e)[:200])
        import warnings
        import xarray as xr

        for xp in XPOS:
            for yp in YPOS:
                arr = xr.DataArray(np.zeros((self.ds.sizes[XPOS[xp]], self.ds.sizes[YPOS[yp]])), dims=[XPOS[xp], YPOS[yp]])
                for axes in (("X",), ("X", "Y")):
                    res = []
                    for g in (self.grid, fresh):
                        with warnings.catch_warnings():
                            warnings.simplefilter("ignore")
                            try:
                                res.append(("ok", g.get_metric(arr, axes)))
                            except Exception as e:  # noqa: BLE001
                                res.append(("raise", type(e).__name__))
                    (ka, va), (kb, vb) = res
                    same = ka == kb and (va == vb if ka == "raise" else (set(va.dims) == set(vb.dims) and np.array_equal(va.transpose(*vb.dims).values, vb.values)))
                    # where no slot exists several interpolated answers are acceptable (C10); compare only occupied positions
                    slot = (frozenset(axes), (xp,) if len(axes) == 1 else (xp, yp))
                    if slot in self.model and not same:
                        raise Violation("get_metric after batched registration differs from one-at-a-time registration", axes=list(axes), position=[xp, yp])

    # -- invariants
    def check_registry(self, when):
        real = {}
        for fs, lst in self.grid._metrics.items():
            real[frozenset(fs)] = sorted(str(m.name) for m in lst)
        want = {}
        for (fs, pos), nm in self.model.items():
            want.setdefault(fs, []).append(nm)
        want = {k: sorted(v) for k, v in want.items()}
        real = {k: v for k, v in real.items() if v}
        if real != want:
            raise Violation(f"registry differs from the model {when}", registry={"/".join(sorted(k)): v for k, v in real.items()},
                            model={"/".join(sorted(k)): v for k, v in want.items()})
        for slot, nm in self.model.items():
            self.check_slot(slot, nm, when)
        if getattr(self, "bystander", None) is not None:
            other = {frozenset(fs): sorted(str(m.name) for m in lst) for fs, lst in self.bystander._metrics.items() if lst}
            want_other = {frozenset(["X", "Y"]): self.bystander_names[:1], frozenset(["X"]): self.bystander_names[1:]}
            if other != want_other:
                raise Violation(f"the registry of another Grid on the same dataset changed ({when})",
                                registry={"/".join(sorted(k)): v for k, v in other.items()}, expected={"/".join(sorted(k)): v for k, v in want_other.items()})

    def check_slot(self, slot, name, when):
        import xarray as xr

        fs, pos = slot
        axes = ("X",) if fs == frozenset(["X"]) else ("X", "Y")
        dims = [XPOS[pos[0]]] + ([YPOS[pos[1]]] if len(axes) == 2 else [YPOS["center"]])
        arr = xr.DataArray(np.zeros([self.ds.sizes[d] for d in dims]), dims=dims)
        try:
            got = self.grid.get_metric(arr, axes)
        except Exception as e:  # noqa: BLE001
            raise Violation(f"get_metric raised for an occupied slot ({when})", axes=list(axes), position=list(pos), expected=name, exception=type(e).__name__)
        want = self.ds[name]
        if set(got.dims) != set(want.dims) or not np.array_equal(got.transpose(*want.dims).values, want.values):
            raise Violation(f"slot does not hold the most recently registered variable ({when})", axes=list(axes), position=list(pos),
                            expected=name, got=str(got.name))


def run_history(steps):
    h = History()
    for s in steps:
        if s["op"] == "construct":
            h.construct(s["metrics"])
        elif s["op"] == "register":
            if h.grid is None:
                h.construct([])
            h.register(s["axes"], s["spelling"], s["names"], s["overwrite"])
        elif s["op"] == "query":
            h.query(s["x"], s["y"])
    h.finish()
    return h


def check(case, ctx):
    h = run_history(case["steps"])
    nreg = sum(1 for s in case["steps"] if s["op"] == "register")
    return {"nontrivial": h.nontrivial, "classes": sorted(h.classes) + [f"registrations:{nreg}"]}


# ------------------------------------------------------------------ generators
def names_for(axes):
    return sorted(n for n, (a, _) in POOL.items() if a == tuple(axes))


@st.composite
def batch(draw, axes, min_size=1, max_size=3):
    names = names_for(axes)
    chosen = draw(st.lists(st.sampled_from(names), min_size=min_size, max_size=max_size, unique_by=lambda n: POOL[n][1]))
    return chosen


axes_sets = st.sampled_from([["X"], ["X"], ["X", "Y"]])
spellings = st.sampled_from(["tuple", "list", "tuple-rev", "list-rev", "str"])


def run_shard(prop, tier, dseed, shard, n_examples, budget_s):
    import hypothesis
    from hypothesis import HealthCheck, Phase, settings
    from hypothesis.stateful import RuleBasedStateMachine, initialize, precondition, rule, run_state_machine_as_test

    from vfw.runner import _Collector

    ctx = Ctx(prop)
    col = _Collector()
    t0 = time.time()
    state = {"best": None, "fail_t": None, "herr": None}
    shrink_budget = 45.0 if tier == "quick" else 240.0

    class Machine(RuleBasedStateMachine):
        def __init__(self):
            super().__init__()
            self.steps = []
            self.h = History()
            self.nreg = 0
            self.skip = False
            now = time.time()
            if state["fail_t"] is not None and now - state["fail_t"] > shrink_budget:
                self.skip = True
            if state["fail_t"] is None and now - t0 > budget_s:
                self.skip = True
                col.res["budget_hit"] = True

        def _do(self, step, fn):
            if self.skip:
                return
            self.steps.append(step)
            try:
                fn()
            except Violation as v:
                rec = {"case": {"steps": jsonable(self.steps)}, "what": v.what, "details": jsonable(v.details)}
                size = len(canon(rec["case"]))
                if state["fail_t"] is None:
                    state["fail_t"] = time.time()
                if state["best"] is None or size <= state["best"][0]:
                    state["best"] = (size, rec)
                raise
            except Exception:
                state["herr"] = traceback.format_exc()
                raise

        @initialize(entries=st.lists(st.tuples(axes_sets, spellings), max_size=3), data=st.data())
        def construct(self, entries, data):
            # several entries may name the same axis set as long as their dictionary keys differ (('X','Y') and ('Y','X'),
            # 'X' and ('X',)): they accumulate like successive registrations; each entry fills other positions
            metrics = []
            keys, taken = set(), set()
            for axes, sp in entries:
                sp = sp if sp != "str" or len(axes) == 1 else "tuple"
                key = spell_key(axes, sp)
                key = key if isinstance(key, str) else tuple(key)
                if key in keys:
                    continue
                names = [nm for nm in data.draw(batch(axes)) if slot_of(nm) not in taken]
                if not names:
                    continue
                keys.add(key)
                taken.update(slot_of(nm) for nm in names)
                metrics.append([axes, sp, names])
            self._do({"op": "construct", "metrics": metrics}, lambda: self.h.construct(metrics))

        @precondition(lambda self: self.nreg < 4)
        @rule(axes=axes_sets, sp=spellings, overwrite=st.booleans(), data=st.data())
        def register(self, axes, sp, overwrite, data):
            names = data.draw(batch(axes))
            if sp == "str" and len(axes) != 1:
                sp = "tuple"
            self.nreg += 1
            step = {"op": "register", "axes": axes, "spelling": sp, "names": names, "overwrite": overwrite}
            self._do(step, lambda: self.h.register(axes, sp, names, overwrite))

        @rule(x=st.sampled_from(sorted(XPOS)), y=st.sampled_from(sorted(YPOS)))
        def query(self, x, y):
            self._do({"op": "query", "x": x, "y": y}, lambda: self.h.query(x, y))

        def teardown(self):
            if self.skip:
                return
            if state["fail_t"] is None:
                try:
                    self._do({"op": "finish"}, self.h.finish)
                finally:
                    pass
                if state["fail_t"] is None:
                    col.record({"steps": jsonable(self.steps)}, {"nontrivial": self.h.nontrivial,
                               "classes": sorted(self.h.classes) + [f"registrations:{self.nreg}"]})

    sets = settings(max_examples=max(1, n_examples), stateful_step_count=8, database=None, deadline=None, derandomize=False,
                    report_multiple_bugs=False, print_blob=False, phases=[Phase.generate, Phase.shrink],
                    suppress_health_check=list(HealthCheck))
    try:
        run_state_machine_as_test(hypothesis.seed(dseed)(Machine), settings=sets)
    except Exception:  # noqa: BLE001
        if state["best"] is None:
            col.res["harness_error"] = state["herr"] or traceback.format_exc()
    if state["best"] is not None:
        col.res["failure"] = state["best"][1]
    return col.finish(ctx)
