"""C03 - scalar operations are invariant to how the domain is cut into faces.

Oracle: geometric - the same operation evaluated on the undivided field through the affine
index map of each face's orientation; the oracle never looks at the link table."""
import numpy as np
from hypothesis import strategies as st

from vfw import gen
from vfw.core import Violation, must_return
from vfw.model import topology as T

PROPERTY = "C03"
SIZES = {"quick": 3200, "thorough": 60000}
RULE = (
    "Hypothesis draws Kx x Ky faces (1-3 x 1-2; thorough up to 3x3) of N x N cells (N 2-4), periodic/open per "
    "direction, a D4 orientation per face (backtracking constructor over drawn preference orders keeps only "
    "decompositions whose junctions are expressible), a global cell-centred field with 0-2 extra dims, the position of "
    "the face dim and the dim order, operator, axis, target position, rule on open edges and fill value (grid level or "
    "per call). The link table is derived from geometry. Oracle: the operation on the undivided field. Non-trivial = "
    "(>=2 faces or a swapped/reversed link) AND some operand crossed a face edge AND data not constant; distinct = canonical JSON."
)
ASSUMPTIONS = ["square faces, N <= 4, <= 9 faces; cell-centred scalar input (the property's domain)"]
POSN = ["center", "left", "right", "inner", "outer"]


@st.composite
def strategy_impl(draw, tier, nonreversed=False):
    Kx = draw(st.integers(1, 3))
    Ky = draw(st.integers(1, 2 if tier == "quick" else 3))
    N = draw(st.integers(2, 4))
    px, py = draw(st.booleans()), draw(st.booleans())
    prefs = [draw(st.permutations(list(range(8)))) for _ in range(Kx * Ky)]
    extra = draw(gen.extra_dims())
    lead = [e[1] for e in extra]
    G = draw(gen.data_values(lead + [Ky * N, Kx * N]))
    dims = ["face"] + [e[0] for e in extra] + ["yc", "xc"]
    return {
        "Kx": Kx, "Ky": Ky, "N": N, "px": px, "py": py, "prefs": [list(p) for p in prefs],
        "extra": extra, "dims": draw(gen.permutations_of(dims)), "values": G,
        "op": draw(st.sampled_from(["diff", "interp", "min", "max"])),
        "axis": draw(st.integers(0, 1)),
        "to": draw(st.sampled_from(["left", "right", "outer", "inner"])),
        "boundary": draw(st.sampled_from(["fill", "extend", "periodic"])),
        "fill": draw(gen.fill_values),
        "bsrc": draw(st.sampled_from(["grid", "call"])),
        # listing order of the faces / axes in the face_connections dictionaries (must not matter)
        "face_order": list(draw(st.permutations(list(range(Kx * Ky))))),
        "reverse_axes": draw(st.booleans()),
        "flag_style": draw(st.sampled_from(["python", "python", "numpy", "int"])),   # type of the reverse flags / face numbers in the links
        "carry_coords": draw(st.booleans()),   # the input carries the dataset's coordinates (face labels included) or none
        # rule and fill value spelled per axis: the axis that is not operated on gets a fill value of its own and the same
        # or another rule (unlinked edges obey the rule of *their* axis)
        "per_axis": draw(st.booleans()),
        "other_rule": draw(st.sampled_from(["same", "same", "fill", "extend"])),
        "other_fill": draw(st.sampled_from([-77.0, 13.5, 1.0e3])),
    }


def strategy(tier):
    return strategy_impl(tier)


def make_ds(N, nf, extra):
    import xarray as xr

    coords = {}
    gc = {}
    for a in "XY":
        gc[a] = {}
        for p in POSN:
            d = gen.dim_name(a, p)
            L = gen.pos_len(N, p)
            coords[d] = (d, np.arange(L) * 1.0)
            gc[a][p] = d
    for name, size in extra:
        coords[name] = (name, np.arange(size) * 1.0)
    coords["face"] = ("face", np.arange(nf))
    return xr.Dataset(coords=coords), gc


def table_json(table):
    return {str(f): {a: [None if l is None else list(l) for l in sides] for a, sides in per.items()} for f, per in table.items()}


def link_kinds(table):
    kinds = set()
    for f, per in table.items():
        for a, sides in per.items():
            for s, l in enumerate(sides):
                if l is not None:
                    kinds.add(("R" if s else "L") + ("swap" if l[1] != a else "same") + ("rev" if l[2] else "nor"))
                    if l[0] == f:
                        kinds.add("self-link")
    return kinds


def check(case, ctx):
    import xarray as xr
    from xgcm import Grid

    Kx, Ky, N = case["Kx"], case["Ky"], case["N"]
    nf = Kx * Ky
    orients = T.assign_orientations(Kx, Ky, case["px"], case["py"], case["prefs"])
    table = T.build_table(Kx, Ky, case["px"], case["py"], orients)
    assert table is not None
    G = np.asarray(case["values"], dtype=np.float64)
    A = T.cut(G, Kx, Ky, N, orients)
    ds, gc = make_ds(N, nf, case["extra"])
    bnd, fil = case["boundary"], case["fill"]
    if case.get("per_axis"):
        a_, o_ = "XY"[case["axis"]], "XY"[1 - case["axis"]]
        bnd = {a_: case["boundary"], o_: case["boundary"] if case["other_rule"] == "same" else case["other_rule"]}
        fil = {a_: case["fill"], o_: case["other_fill"]}
    kw = {}
    if case["bsrc"] == "grid":
        kw = {"boundary": bnd, "fill_value": fil}
    has_links = any(l is not None for per in table.values() for sides in per.values() for l in sides)
    fc = gen.table_to_xgcm(table_json(table), face_order=case.get("face_order"), reverse_axes=case.get("reverse_axes", False), flag_style=case.get("flag_style", "python")) if has_links else None
    grid = must_return("Grid construction", Grid, ds, coords=gc, face_connections=fc, autoparse_metadata=False, periodic=False, **kw)
    base_dims = ["face"] + [e[0] for e in case["extra"]] + ["yc", "xc"]
    da = xr.DataArray(A, dims=base_dims).transpose(*case["dims"])
    if case.get("carry_coords"):
        da = da.assign_coords({d: ds[d] for d in da.dims if d in ds.coords})
    ckw = {"to": case["to"]}
    if case["bsrc"] == "call":
        ckw.update(boundary=dict(bnd) if isinstance(bnd, dict) else bnd, fill_value=dict(fil) if isinstance(fil, dict) else fil)
    got = must_return(f"Grid.{case['op']}", getattr(grid, case["op"]), da, "XY"[case["axis"]], **ckw)
    exp, crossed = T.scalar_reference(G, Kx, Ky, N, orients, case["px"], case["py"], case["op"], case["axis"], case["to"],
                                      case["boundary"], case["fill"])
    new = gen.dim_name("XY"[case["axis"]], case["to"])
    exp_dims_base = ["face"] + [e[0] for e in case["extra"]] + (["yc", new] if case["axis"] == 0 else [new, "xc"])
    old = "xc" if case["axis"] == 0 else "yc"
    exp_dims = [new if d == old else d for d in case["dims"]]
    if list(got.dims) != exp_dims:
        raise Violation("result dims differ", got=list(got.dims), expected=exp_dims)
    gv = np.asarray(got.transpose(*exp_dims_base).values)
    if gv.shape != exp.shape:
        raise Violation("result shape differs", got=list(gv.shape), expected=list(exp.shape))
    if not np.array_equal(gv, exp):
        bad = np.argwhere(gv != exp)
        i = tuple(int(x) for x in bad[0])
        raise Violation("values differ from the same operation on the undivided domain", index=list(i), dims=exp_dims_base,
                        got=float(gv[i]), expected=float(exp[i]), n_bad=int(len(bad)), orients=orients, table=table_json(table))
    # history independence on the same Grid: another axis / target / rule in between, then the same call again
    other_to = "outer" if case["to"] != "outer" else "left"
    must_return("another call on the same Grid", getattr(grid, case["op"]), da, "XY"[1 - case["axis"]], to=other_to, boundary="extend")
    again = must_return(f"Grid.{case['op']} (repeated)", getattr(grid, case["op"]), da, "XY"[case["axis"]], **ckw)
    if list(again.dims) != exp_dims or not np.array_equal(np.asarray(again.transpose(*exp_dims_base).values), exp):
        raise Violation("the same call repeated after another call on the same Grid gives another result")

    # the very same input object updated in place (a time-stepping loop): the result follows the new values
    G1 = 3 - 2 * G
    da.values[...] = xr.DataArray(T.cut(G1, Kx, Ky, N, orients), dims=base_dims).transpose(*case["dims"]).values
    exp1, _ = T.scalar_reference(G1, Kx, Ky, N, orients, case["px"], case["py"], case["op"], case["axis"], case["to"],
                                 case["boundary"], case["fill"])
    upd = must_return(f"Grid.{case['op']} (input updated in place)", getattr(grid, case["op"]), da, "XY"[case["axis"]], **ckw)
    if list(upd.dims) != exp_dims or not np.array_equal(np.asarray(upd.transpose(*exp_dims_base).values), exp1):
        raise Violation("after the input object was updated in place the result does not follow the new values")

    kinds = link_kinds(table)
    special = any(("swap" in k or "rev" in k) for k in kinds)
    nonconst = bool(np.ptp(G) > 0)
    classes = [f"faces:{nf}", f"op:{case['op']}", f"to:{case['to']}", f"rule:{case['boundary']}", f"facepos:{case['dims'].index('face')}"]
    classes += sorted("link:" + k for k in kinds)
    if not has_links:
        classes.append("no-links")
    if case.get("face_order") and list(case["face_order"]) != sorted(case["face_order"]):
        classes.append("faces-listed-out-of-order")
    return {"nontrivial": bool((nf >= 2 or special) and crossed > 0 and nonconst), "classes": classes}
