"""C20 - ill-posed requests raise instead of returning an array.

For every valid call of the shared corpus (its unedited form is executed first and must
return) apply one ill-posing edit from the listed classes; the edited call must raise."""
import copy

from hypothesis import strategies as st

from vfw import gen, scen_gen, scenario
from vfw.core import Violation
from vfw.model import stencil as M

PROPERTY = "C20"
SIZES = {"quick": 6000, "thorough": 80000}
RULE = (
    "Hypothesis draws a scenario from the shared corpus (simple grids with metrics, face-connected grids, multi-axis grid "
    "ufuncs, transform), one of its calls, and one applicable single edit: axis the grid lacks; data lacking the axis' "
    "dimension / carrying two dimensions of the axis; `to` = current position / a position the axis lacks / a face-to-face "
    "shift / an unknown position word; unknown boundary word or non-numeric fill value in force for an axis the call must pad "
    "(per call, or at Grid construction); transform on a periodic axis; non-monotonic or constant conservative bins; "
    "conservative transform without outer positions; grid-ufunc input on a wrong position, wrong number of inputs / `axis` "
    "entries / axes per entry. The unedited call is executed first and must return (otherwise the case is discarded and "
    "counted). Oracle: the edited call raises an Exception; returning any object is a violation. Non-trivial = every edited "
    "call whose unedited form returned; distinct = (edit class, operation, family, canonical JSON)."
)
ASSUMPTIONS = [
    "an unknown boundary word / fill value attached to a shift that needs no padding, or to an axis the call does not operate "
    "on, does not make the request ill-posed and is not asserted",
]
STENCIL = ["diff", "interp", "min", "max"]
ALLPOS = ["center", "left", "right", "inner", "outer"]


def axis_positions(sc, arr):
    """{axis: position} of an array according to the scenario's grid coords."""
    out = {}
    coords = (sc.get("grid") or {}).get("coords") or {}
    for ax, posmap in coords.items():
        for p, d in posmap.items():
            if d in sc["arrays"][arr]["dims"]:
                out[ax] = p
    return out


def applicable_edits(sc, call):
    fn = call["fn"]
    edits = []
    gcoords = (sc.get("grid") or {}).get("coords") or {}
    if fn in STENCIL + ["cumsum", "derivative", "cumint", "integrate", "average"] and isinstance(call.get("da"), str):
        axes = [call["axis"]] if isinstance(call["axis"], str) else list(call["axis"])
        pos = axis_positions(sc, call["da"])
        edits.append("axis-missing")
        edits.append("data-lacks-dim")
        if any(len(gcoords[a]) >= 2 for a in axes):
            edits.append("data-two-dims")
        if fn in STENCIL + ["cumsum"]:
            edits += ["to-same", "to-unknown-word"]
            if any(len(gcoords[a]) < 5 for a in axes):
                edits.append("to-missing")
            if any(pos.get(a) != "center" and len([p for p in gcoords[a] if p not in ("center", pos.get(a))]) >= 1 for a in axes):
                edits.append("to-face-to-face")
        if fn in STENCIL:
            edits += ["boundary-unknown", "fill-nonnumeric", "fill-object"]
        if fn in ("cumsum", "cumint"):
            edits += ["boundary-unknown", "fill-nonnumeric"]
    if fn == "get_metric":
        edits.append("axis-missing")
    if fn == "pad" and isinstance(call.get("da"), str):
        edits += ["boundary-unknown", "fill-nonnumeric"]
    if fn == "pad":
        edits.append("axis-missing")
    if sc.get("grid") and gcoords and fn != "equivalent":
        edits += ["grid-boundary-unknown", "grid-fill-nonnumeric", "grid-position-unknown", "grid-dim-missing"]
    if fn == "transform":
        edits += ["transform-periodic", "axis-missing"]
        if call.get("method") == "conservative":
            edits += ["bins-nonmonotonic", "bins-constant", "no-outer"]
    if fn == "ufunc":
        edits += ["ufunc-wrong-position", "ufunc-extra-input", "ufunc-axis-entries", "ufunc-axes-per-entry", "axis-missing", "ufunc-data-two-dims"]
    return edits


# every edit class, grouped by the kind of scenario that can host it.  The class is drawn first and the scenario after it:
# drawing the scenario first left the classes that only one family hosts (the conservative-bins edits) with a handful of
# cases per run.
EDIT_GROUPS = {
    "conservative": ["bins-nonmonotonic", "bins-constant", "no-outer"],
    "transform": ["transform-periodic"],
    "ufunc": ["ufunc-wrong-position", "ufunc-extra-input", "ufunc-axis-entries", "ufunc-axes-per-entry", "ufunc-data-two-dims"],
    "stencil": ["to-same", "to-missing", "to-face-to-face", "to-unknown-word", "boundary-unknown", "fill-nonnumeric", "fill-object",
                "data-lacks-dim", "data-two-dims"],
    "any": ["axis-missing", "grid-boundary-unknown", "grid-fill-nonnumeric", "grid-position-unknown", "grid-dim-missing"],
}
ALL_EDITS = [(g, e) for g, es in EDIT_GROUPS.items() for e in es]


def _family_for(group):
    if group == "conservative":
        return scen_gen.transform_family(kind="conservative")
    if group == "transform":
        return scen_gen.transform_family()
    if group == "ufunc":
        return scen_gen.ufunc_family()
    if group == "stencil":
        return st.one_of(scen_gen.simple_family(2), scen_gen.simple_family(2), scen_gen.faces_family(2))
    return st.one_of(scen_gen.simple_family(2), scen_gen.simple_family(2), scen_gen.faces_family(2), scen_gen.ufunc_family(),
                     scen_gen.transform_family())


@st.composite
def strategy_impl(draw, tier):
    # (a drawn permutation first: sampled_from alone favours the first entries of the list)
    group, want = ALL_EDITS[draw(st.permutations(range(len(ALL_EDITS))))[0]]
    sc = draw(_family_for(group))
    hosts = [i for i, c in enumerate(sc["calls"]) if want in applicable_edits(sc, c)]
    if hosts:
        idx = hosts[draw(st.integers(0, len(hosts) - 1))]
        edit = want
    else:
        idx = draw(st.integers(0, len(sc["calls"]) - 1))
        edits = applicable_edits(sc, sc["calls"][idx]) or ["none"]
        edit = draw(st.permutations(edits))[0]
    return {"scenario": sc, "call": idx, "edit": edit, "pick": draw(st.integers(0, 23))}


@st.composite
def vector_wrapper_case(draw):
    """The two-component wrappers move C-grid components to the cell centres; a component that already sits on the centre
    of its own axis is a same-position shift."""
    n = draw(st.integers(2, 4))
    at_center = draw(st.sampled_from([["X"], ["Y"], ["X", "Y"]]))
    return {"kind": "vector-wrapper", "n": n, "wrapper": draw(st.sampled_from(["interp_2d_vector", "diff_2d_vector"])),
            "at_center": at_center, "order": draw(st.sampled_from([["X", "Y"], ["Y", "X"]])),
            "kwargs": draw(st.sampled_from([{}, {"boundary": "extend"}, {"boundary": "fill", "fill_value": 1.0}, {"to": "center"}])),
            "faces": draw(st.booleans()), "u": draw(gen.data_values([2, n, n], elements=st.integers(-9, 9).map(float))),
            "v": draw(gen.data_values([2, n, n], elements=st.integers(-9, 9).map(float)))}


def check_vector_wrapper(case, ctx):
    import warnings

    import numpy as np
    import xarray as xr
    from xgcm import Grid

    n = case["n"]
    coords = {"xc": ("xc", np.arange(n) + 0.5), "xl": ("xl", np.arange(n) * 1.0), "yc": ("yc", np.arange(n) + 0.5),
              "yl": ("yl", np.arange(n) * 1.0), "face": ("face", [0, 1])}
    ds = xr.Dataset(coords=coords)
    fc = {"face": {0: {"X": (None, (1, "X", False))}, 1: {"X": ((0, "X", False), None)}}} if case["faces"] else None
    grid = Grid(ds, coords={"X": {"center": "xc", "left": "xl"}, "Y": {"center": "yc", "left": "yl"}}, periodic=False,
                autoparse_metadata=False, face_connections=fc, boundary="extend")
    wrapper = getattr(grid, case["wrapper"])

    def comp(axis, centred, vals):
        dims = {"X": ["face", "yc", "xc" if centred else "xl"], "Y": ["face", "yc" if centred else "yl", "xc"]}[axis]
        return xr.DataArray(np.asarray(vals, dtype=np.float64), dims=dims)

    def call(centred):
        vec = {a: comp(a, a in centred, case["u"] if a == "X" else case["v"]) for a in case["order"]}
        with warnings.catch_warnings():
            warnings.simplefilter("ignore")
            try:
                return ("ok", wrapper(vec, **dict(case["kwargs"])))
            except Exception as e:  # noqa: BLE001
                return ("raise", type(e).__name__)

    base = call([])
    classes = ["edit:vector-component-at-center", f"fn:{case['wrapper']}", "family:vector-wrapper"]
    if base[0] != "ok":
        ctx.note("unedited_call_does_not_return")
        return {"nontrivial": False, "classes": ["unedited-refused"] + classes}
    got = call(case["at_center"])
    if got[0] == "ok":
        raise Violation("an ill-posed request was answered instead of refused", edit="vector component already at the centre of its own axis",
                        fn=case["wrapper"], at_center=case["at_center"], listed=case["order"], kwargs=case["kwargs"],
                        answer={k: list(v.dims) for k, v in got[1].items()} if isinstance(got[1], dict) else str(type(got[1])))
    return {"nontrivial": True, "classes": classes + ["raised:" + got[1]]}


@st.composite
def ufunc_count_case(draw):
    """Several inputs whose signature names distinct axes: supplying one and the same grid axis for two of them is a wrong
    number of axes (the signature needs independent ones)."""
    return {"kind": "ufunc-axis-count", "n": draw(st.integers(2, 4)), "route": draw(st.sampled_from(["function", "method", "decorator"])),
            "out": draw(st.sampled_from(["first", "scalar"])), "three": draw(st.booleans()),
            "names": draw(st.permutations(["a", "b", "c", "X", "Y", "lon"]))[:3], "repeat_of": draw(st.sampled_from([0, 1])),
            "pos": draw(st.sampled_from(["center", "left"])),
            # which wrong number: one grid axis for two signature axes, or one `other_component` for several inputs
            "wrong": draw(st.sampled_from(["same-axis-twice", "same-axis-twice", "one-other-component", "one-other-component-in-a-list",
                                           "one-entry-too-long", "one-entry-too-long"]))}


def check_ufunc_count(case, ctx):
    import warnings

    import numpy as np
    import xarray as xr
    from xgcm import Grid, as_grid_ufunc
    from xgcm.grid_ufunc import apply_as_grid_ufunc

    n, pos = case["n"], case["pos"]
    axes = ["X", "Y", "Z"]
    coords = {}
    gc = {}
    for a in axes:
        c, l = a.lower() + "c", a.lower() + "l"
        coords[c] = (c, np.arange(n) + 0.5)
        coords[l] = (l, np.arange(n) * 1.0)
        gc[a] = {"center": c, "left": l}
    grid = Grid(xr.Dataset(coords=coords), coords=gc, periodic=False, autoparse_metadata=False)
    k = 3 if case["three"] else 2
    names = list(case["names"])[:k]
    sig = ",".join(f"({d}:{pos})" for d in names) + "->" + (f"({names[0]}:{pos})" if case["out"] == "first" else "()")

    def func(*arrs):
        tot = arrs[0] if case["out"] == "first" else arrs[0].sum(-1)
        for x in arrs[1:]:
            tot = tot * x.sum(-1)[..., None] if case["out"] == "first" else tot * x.sum(-1)
        return tot

    def call(real, axis=None, **extra):
        das = [xr.DataArray(np.arange(1.0, n + 1.0) * (i + 1), dims=[gc[r][pos]]) for i, r in enumerate(real)]
        axis = axis or [(r,) for r in real]
        with warnings.catch_warnings():
            warnings.simplefilter("ignore")
            try:
                if case["route"] == "function":
                    return ("ok", apply_as_grid_ufunc(func, *das, axis=axis, grid=grid, signature=sig, **extra))
                if case["route"] == "method":
                    return ("ok", grid.apply_as_grid_ufunc(func, *das, axis=axis, signature=sig, **extra))
                return ("ok", as_grid_ufunc(signature=sig)(func)(grid, *das, axis=axis, **extra))
            except Exception as e:  # noqa: BLE001
                return ("raise", type(e).__name__)

    good = axes[:k]
    classes = ["edit:ufunc-same-grid-axis-for-two-signature-axes", f"fn:ufunc/{case['route']}", "family:ufunc-axis-count"]
    if call(good)[0] != "ok":
        ctx.note("unedited_call_does_not_return")
        return {"nontrivial": False, "classes": ["unedited-refused"] + classes}
    wrong = case.get("wrong", "same-axis-twice")
    if wrong == "same-axis-twice":
        bad = list(good)
        bad[-1] = good[case["repeat_of"] % (k - 1)]   # the last input names the axis of an earlier one
        got = call(bad)
        edit = "one grid axis supplied for two distinct signature axes"
    elif wrong == "one-entry-too-long":
        # one entry of `axis` names more axes than its signature entry has (the surplus one occurs elsewhere in the call)
        j = case["repeat_of"] % k
        axl = [(r,) for r in good]
        axl[j] = (good[j], good[(j + 1) % k])
        got = call(good, axis=axl)
        bad = [list(a_) for a_ in axl]
        edit = "an `axis` entry with more axes than its signature entry"
        classes[0] = "edit:ufunc-axis-entry-too-long"
    else:
        # one partner component for several inputs: which input it belongs to is not defined (one per input, or none)
        partner = {"Y": xr.DataArray(np.ones(n), dims=[gc["Y"][pos]])}
        got = call(good, other_component=partner if wrong == "one-other-component" else [partner])
        bad = good
        edit = "a single other_component for several inputs"
        classes[0] = "edit:ufunc-one-other-component-for-several-inputs"
    if got[0] == "ok":
        raise Violation("an ill-posed request was answered instead of refused", edit=edit,
                        signature=sig, axis=[r if isinstance(r, list) else [r] for r in bad], route=case["route"], answer=list(getattr(got[1], "dims", ())))
    return {"nontrivial": True, "classes": classes + ["raised:" + got[1]]}


def strategy(tier):
    return st.integers(0, 19).flatmap(lambda k: vector_wrapper_case() if k in (0, 1) else (ufunc_count_case() if k == 2 else strategy_impl(tier)))


def pick(seq, k):
    seq = list(seq)
    return seq[k % len(seq)]


def prepare(case):
    """-> (base scenario, edited scenario) or None when the edit turns out not to apply."""
    sc = copy.deepcopy(case["scenario"])
    idx, edit, k = case["call"], case["edit"], case["pick"]
    sc["calls"] = [sc["calls"][idx]]
    call = sc["calls"][0]
    gcoords = (sc.get("grid") or {}).get("coords") or {}
    fn = call["fn"]
    axes = []
    if "axis" in call and fn != "ufunc":
        axes = [call["axis"]] if isinstance(call["axis"], str) else list(call["axis"])
    by_n = {}
    for ax, posmap in gcoords.items():
        # cell count from the center dim
        by_n[ax] = sc["dims"][posmap["center"]]

    def targets():
        pos = axis_positions(sc, call["da"])
        t = {}
        for a in axes:
            if isinstance(call.get("to"), dict):
                t[a] = call["to"].get(a)
            elif isinstance(call.get("to"), str):
                t[a] = call["to"]
            else:
                t[a] = None
            if t[a] is None:
                t[a] = M.default_target(list(gcoords[a]), pos[a], None)
        return pos, t

    CUMSUM_PADS = {("center", "left"), ("center", "outer"), ("right", "center"), ("inner", "center")}
    if edit in ("boundary-unknown", "fill-nonnumeric", "fill-object") and fn in STENCIL + ["cumsum", "cumint"]:
        # the rule must be in force for an axis the call pads
        pos, t = targets()
        if fn in STENCIL:
            padded = [a for a in axes if M.needs_boundary(by_n[a], pos[a], t[a])]
        else:
            padded = [a for a in axes if (pos[a], t[a]) in CUMSUM_PADS]
        if not padded:
            return None
        a = pick(padded, k)
        call["to"] = dict(t)
        if edit != "boundary-unknown":
            call["boundary"] = "fill"
        call.setdefault("fill_value", None)
    base = copy.deepcopy(sc)
    ed = copy.deepcopy(sc)
    c = ed["calls"][0]

    if edit == "none":
        return None
    if edit == "axis-missing":
        if fn == "get_metric":
            c["axes"] = list(c["axes"][:-1]) + ["NOAXIS"]
        elif fn == "ufunc":
            c["axis"] = [["NOAXIS"] + list(c["axis"][0][1:])]
        elif fn == "transform":
            c["axis"] = "NOAXIS"
        elif fn == "pad":
            # an axis the grid lacks among the widths: besides the others, or as the only one
            c["widths"] = dict(c["widths"] if k % 2 else {}, NOAXIS=[1, 0] if k % 3 else [1, 1])
        elif isinstance(c["axis"], str):
            c["axis"] = "NOAXIS"
        else:
            c["axis"] = list(c["axis"][:-1]) + ["NOAXIS"]
            if isinstance(c.get("to"), dict):
                c["to"] = dict(c["to"], NOAXIS="center")
    elif edit in ("data-lacks-dim", "data-two-dims"):
        pos = axis_positions(sc, call["da"])
        a = pick(axes, k)
        src = ed["arrays"][call["da"]]
        d = gcoords[a][pos[a]]
        i = src["dims"].index(d)
        import numpy as np

        vals = np.asarray(src["values"], dtype=float)
        if edit == "data-lacks-dim":
            ed["arrays"]["BAD"] = {"dims": [x for x in src["dims"] if x != d], "values": np.take(vals, 0, axis=i).tolist(), "name": None}
        else:
            others = [p for p in gcoords[a] if p != pos[a]]
            if not others:
                return None
            d2 = gcoords[a][pick(others, k)]
            L2 = sc["dims"][d2]
            if L2 < 1:
                return None
            ed["arrays"]["BAD"] = {"dims": [d2] + list(src["dims"]), "values": np.stack([vals] * L2).tolist(), "name": None}
        c["da"] = "BAD"
    elif edit in ("to-same", "to-missing", "to-face-to-face", "to-unknown-word"):
        pos, t = targets()
        a = pick(axes, k)
        if edit == "to-same":
            new = pos[a]
        elif edit == "to-missing":
            miss = [p for p in ALLPOS if p not in gcoords[a]]
            if not miss:
                return None
            new = pick(miss, k)
        elif edit == "to-face-to-face":
            cand = [x for x in axes if pos[x] != "center" and [p for p in gcoords[x] if p not in ("center", pos[x])]]
            if not cand:
                return None
            a = pick(cand, k)
            new = pick([p for p in gcoords[a] if p not in ("center", pos[a])], k)
        else:
            new = pick(["middle", "centre", "Left", "", "centerleft"], k)
        c["to"] = dict(t, **{a: new})
    elif edit == "boundary-unknown":
        word = pick(["reflect", "wrap", "Fill", "constant", "dirichlet"], k)
        if fn == "pad":
            wid = {a: w for a, w in call["widths"].items() if max(w) > 0}
            if not wid:
                return None
            a = pick(sorted(wid), k)
            cur = c.get("boundary")
            c["boundary"] = dict(cur, **{a: word}) if isinstance(cur, dict) else (word if k % 2 else {a: word})
        else:
            cur = c.get("boundary")
            c["boundary"] = dict(cur, **{a: word}) if isinstance(cur, dict) else (word if k % 2 else {a: word})
    elif edit in ("fill-nonnumeric", "fill-object"):
        # (falsy non-numbers included: an empty string or list is no more a number than 'abc')
        bad = pick(["abc", "", "nan?", [], "zero", "", []], k // 2) if edit == "fill-nonnumeric" else {"__object__": True}
        if fn == "pad":
            wid = {a: w for a, w in call["widths"].items() if max(w) > 0}
            if not wid:
                return None
            a = pick(sorted(wid), k)
            base["calls"][0]["boundary"] = "fill"
            c["boundary"] = "fill"
        c["fill_value"] = bad if k % 2 else {a: bad}
    elif edit == "grid-boundary-unknown":
        a = pick(sorted(gcoords), k)
        ed["grid"]["boundary"] = pick(["reflect", "wrap", "Periodic"], k) if k % 2 else {a: "reflect"}
    elif edit == "grid-fill-nonnumeric":
        a = pick(sorted(gcoords), k)
        badg = pick(["abc", "", [], "0"], k // 2)
        ed["grid"]["fill_value"] = badg if k % 2 else {a: badg}
    elif edit == "grid-position-unknown":
        a = pick(sorted(gcoords), k)
        posmap = dict(ed["grid"]["coords"][a])
        p0 = pick(sorted(posmap), k)
        posmap[pick(["middle", "centre", "Center", "edge"], k)] = posmap.pop(p0)
        ed["grid"]["coords"][a] = posmap
    elif edit == "grid-dim-missing":
        a = pick(sorted(gcoords), k)
        posmap = dict(ed["grid"]["coords"][a])
        p0 = pick(sorted(posmap), k)
        posmap[p0] = "NODIM"
        ed["grid"]["coords"][a] = posmap
    elif edit == "transform-periodic":
        ed["grid"]["periodic"] = True if k % 2 else ["Z"]
        if k % 3 == 0:
            ed["grid"].pop("periodic", None)
            ed["grid"]["boundary"] = "periodic"
    elif edit in ("bins-nonmonotonic", "bins-constant"):
        t = c["target"]
        vals = list(t["values"] if isinstance(t, dict) else t)
        if edit == "bins-constant":
            vals = [vals[0]] * len(vals)
        else:
            def strictly_monotonic(v):
                return all(b > a for a, b in zip(v[:-1], v[1:])) or all(b < a for a, b in zip(v[:-1], v[1:]))

            if len(vals) < 3:
                vals = vals + [vals[0]]
            else:
                # several ways of not being monotonic: where the disorder sits (interior / at an end) and whether the first
                # edge ends up below or above the last one are independent of the direction of the original bins
                orig = list(vals)
                how = k % 6
                if how == 0:
                    vals[1], vals[-1] = vals[-1], vals[1]
                elif how == 1:
                    i = 1 + (k // 6) % max(1, len(vals) - 2)
                    j = min(i + 1, len(vals) - 1)
                    vals[i], vals[j] = vals[j], vals[i]
                elif how == 2:
                    vals = vals[::-1]
                    vals[1], vals[-1] = vals[-1], vals[1]
                elif how == 3:
                    m = max(range(len(vals)), key=lambda q: vals[q])
                    vals = [vals[m]] + vals[:m] + vals[m + 1:]
                    if m == 0:
                        vals = vals[1:] + vals[:1]
                elif how == 4:
                    i = 1 + (k // 6) % max(1, len(vals) - 2)
                    vals[i] = vals[i - 1]
                else:
                    vals[0], vals[-1] = vals[-1], vals[0]
                if strictly_monotonic(vals):
                    vals = list(orig)
                    vals[1], vals[-1] = vals[-1], vals[1]
                    if strictly_monotonic(vals):
                        vals[1] = vals[0]
        if edit == "bins-nonmonotonic" and (k // 3) % 3 != 0:
            # the type of the edges is free as well: the same disorder written in whole numbers (ranks), signed or unsigned
            order = sorted(set(vals))
            vals = [order.index(v) for v in vals]
            c["target_dtype"] = "uint8" if (k // 3) % 3 == 1 else "int64"
        if isinstance(t, dict):
            c["target"] = dict(t, values=vals)
        else:
            c["target"] = vals
    elif edit == "no-outer":
        if call.get("target_data") != "TC":
            base["calls"][0]["target_data"] = "TC"
            c["target_data"] = "TC"
        ed["grid"]["coords"]["Z"] = {"center": "ZC"}
    elif edit == "ufunc-wrong-position":
        sig = c["sig"]
        d, p = sig["in"][0][k % len(sig["in"][0])]
        real = c["axis"][0][[x for x, _ in sig["in"][0]].index(d)]
        others = [q for q in gcoords[real] if q != p]
        if not others:
            return None
        for arg in sig["in"]:
            for pair in arg:
                if pair[0] == d:
                    pair[1] = pick(others, k)
    elif edit == "ufunc-data-two-dims":
        # the first input gets a second dimension of one of its own axes (another position of that axis)
        import numpy as np

        sig = c["sig"]
        j = k % len(sig["in"][0])
        d, p = sig["in"][0][j]
        real = c["axis"][0][j]
        others = [q for q in gcoords[real] if q != p]
        if not others:
            return None
        d2 = gcoords[real][pick(others, k // 2)]
        src = ed["arrays"][c["das"][0]]
        if d2 in src["dims"] or sc["dims"][d2] < 1:
            return None
        vals = np.asarray(src["values"], dtype=float)
        ed["arrays"]["BAD"] = {"dims": [d2] + list(src["dims"]), "values": np.stack([vals] * sc["dims"][d2]).tolist(), "name": None}
        c["das"] = ["BAD"] + list(c["das"][1:])
    elif edit == "ufunc-extra-input":
        c["das"] = list(c["das"]) + [c["das"][0]]
    elif edit == "ufunc-axis-entries":
        c["axis"] = list(c["axis"]) + [list(c["axis"][0])]
    elif edit == "ufunc-axes-per-entry":
        c["axis"] = [list(c["axis"][0][:-1])]
    else:
        return None
    return base, ed


def materialise(sc):
    """JSON placeholders -> python objects that JSON cannot carry."""
    sc = copy.deepcopy(sc)
    for c in sc["calls"]:
        fv = c.get("fill_value")
        if isinstance(fv, dict):
            if "__object__" in fv:
                c["fill_value"] = object()
            else:
                c["fill_value"] = {a: (object() if isinstance(v, dict) and "__object__" in v else v) for a, v in fv.items()}
    return sc


def check(case, ctx):
    if case.get("kind") == "vector-wrapper":
        return check_vector_wrapper(case, ctx)
    if case.get("kind") == "ufunc-axis-count":
        return check_ufunc_count(case, ctx)
    prep = prepare(case)
    edit = case["edit"]
    fn = case["scenario"]["calls"][case["call"]]["fn"]
    fam = case["scenario"].get("family")
    if prep is None:
        ctx.note("edit_not_applicable")
        return {"nontrivial": False, "classes": ["not-applicable"]}
    base, ed = prep
    out0 = scenario.run_scenario(materialise(base))
    if len(out0) != 1 or "ok" not in out0[0]:
        ctx.note("unedited_call_does_not_return")
        return {"nontrivial": False, "classes": ["unedited-refused", f"edit:{edit}"]}
    out1 = scenario.run_scenario(materialise(ed))
    if any("ok" in o for o in out1):
        raise Violation("an ill-posed request was answered instead of refused", edit=edit, fn=fn, family=fam,
                        edited_call=ed["calls"][0], edited_grid={k: v for k, v in (ed.get("grid") or {}).items() if k != "face_connections"},
                        answer=brief(out1[0]))
    return {"nontrivial": True, "key": [edit, fn, fam, case["scenario"], case["pick"]],
            "classes": [f"edit:{edit}", f"fn:{fn}", f"family:{fam}", "raised:" + str(out1[0].get("raise") or out1[0].get("construct-raise"))]}


def brief(o):
    if "ok" in o and isinstance(o["ok"], dict) and "values" in o["ok"]:
        v = dict(o["ok"])
        v["values"] = v["values"][:6]
        return {"ok": v}
    return o
