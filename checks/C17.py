"""C17 - only reciprocal face-connection tables are accepted.

Oracle: independent reciprocity predicate (vfw.model.links.reciprocal).  Construction must
return iff the predicate holds; any exception counts as refusal."""
import itertools
import multiprocessing as mp

import numpy as np
from hypothesis import strategies as st

from vfw import gen
from vfw.core import Violation, jsonable
from vfw.model import links as L

PROPERTY = "C17"
SIZES = {"quick": 6000, "thorough": 60000}
RULE = (
    "(a) exhaustive: all 5^4 = 625 tables over 2 faces x 1 axis, each with the faces listed in both orders; (b) exhaustive: every single edit and every "
    "double edit (slot replaced by any other value incl. None, a missing face index 7, a missing axis 'Q', a flipped "
    "reverse flag) of consistent base tables over 2 faces x 2 axes and 3 faces x {1,2} axes (quick: all single edits of "
    "all bases + all double edits of the 2x2 and 3x1 bases; thorough: all); (c) Hypothesis: random consistent tables "
    "over 2-6 faces with self-links (must be accepted) and the same with 1-3 random slot edits; also two face "
    "dimensions and a face dimension absent from the dataset - a name the dataset does not know, or the name of an auxiliary "
    "coordinate / data variable that is not a dimension - (must be refused); the dataset's face coordinate carries 0..n-1 or "
    "other labels (1-based, sparse), the table written with those labels or with 0..n-1. Oracle: independent reciprocity "
    "predicate; construction returns <=> predicate. Non-trivial = table with >= 1 link; distinct = canonical JSON of the table."
)
ASSUMPTIONS = [
    "refusal = any exception raised by Grid(...); acceptance = the constructor returns",
    "axis entries are always 2-tuples and only links (not bare axis keys) name missing axes/faces",
]


FLAG_STYLE = ["python"]   # set per case by check(): the type of the reverse flags / face numbers inside the links


def _dataset(nfaces, axes, labels=None, ds_facedim="face"):
    import xarray as xr

    N = 2
    coords = {}
    gc = {}
    for a in axes:
        c, l = a.lower() + "c", a.lower() + "l"
        coords[c] = (c, np.arange(N) + 0.5)
        coords[l] = (l, np.arange(N) * 1.0)
        gc[a] = {"center": c, "left": l}
    coords[ds_facedim] = (ds_facedim, np.arange(nfaces) if labels is None else np.asarray(labels))
    coords["tile_id"] = (ds_facedim, np.arange(nfaces) if labels is None else np.asarray(labels))
    return xr.Dataset({"face_area": ((ds_facedim,), np.arange(nfaces) if labels is None else np.asarray(labels))}, coords=coords), gc


def build_grid(nfaces, axes, table_json, facedims=("face",), ds_facedim="face", labels=None):
    import xarray as xr
    from xgcm import Grid

    N = 2
    coords = {}
    gc = {}
    for a in axes:
        c, l = a.lower() + "c", a.lower() + "l"
        coords[c] = (c, np.arange(N) + 0.5)
        coords[l] = (l, np.arange(N) * 1.0)
        gc[a] = {"center": c, "left": l}
    coords[ds_facedim] = (ds_facedim, np.arange(nfaces) if labels is None else np.asarray(labels))
    # names that exist in the dataset without being dimensions: an auxiliary coordinate and a data variable along the face dim
    coords["tile_id"] = (ds_facedim, np.arange(nfaces) if labels is None else np.asarray(labels))
    ds = xr.Dataset({"face_area": ((ds_facedim,), np.arange(nfaces) if labels is None else np.asarray(labels))}, coords=coords)
    fc = {}
    for fd in facedims:
        fc.update(gen.table_to_xgcm(table_json, fd, flag_style=FLAG_STYLE[0]))
    return Grid(ds, coords=gc, face_connections=fc, autoparse_metadata=False, periodic=False)


def verdict(nfaces, axes, table_json, labels=None):
    try:
        build_grid(nfaces, axes, table_json, labels=labels)
        return True, None
    except Exception as e:  # noqa: BLE001
        return False, type(e).__name__


def assert_table(nfaces, axes, table_json, what, labels=None, elsewhere_first=False):
    """labels: the values of the dataset's face coordinate (default 0..n-1); a face 'exists' iff it is one of them."""
    faces = set(range(nfaces)) if labels is None else set(int(x) for x in labels)
    model_table = gen.table_to_model(table_json)
    want = L.reciprocal(model_table, faces, set(axes))
    if elsewhere_first:
        # the same table offered first with a dataset that has every face it names (where it may well be acceptable): the
        # verdict for *this* dataset must not depend on that
        named = set(faces)
        for f, per in model_table.items():
            named.add(int(f))
            for sides in per.values():
                for l in sides:
                    if l is not None and isinstance(l[0], int):
                        named.add(int(l[0]))
        big = sorted(x for x in named if x >= 0)
        if set(big) != faces and len(big) <= 12:
            want_big = L.reciprocal(model_table, set(big), set(axes))
            got_big, exc_big = verdict(len(big), axes, table_json, big)
            if got_big != want_big:
                raise Violation(f"{what} (on a dataset with all named faces): " + ("non-reciprocal table accepted" if got_big else "reciprocal table refused"),
                                axes=list(axes), table=table_json, exception=exc_big, face_labels=big)
    got, exc = verdict(nfaces, axes, table_json, labels)
    if got != want:
        raise Violation(
            f"{what}: " + ("non-reciprocal table accepted" if got else "reciprocal table refused"),
            nfaces=nfaces, axes=list(axes), table=table_json, exception=exc, face_labels=None if labels is None else [int(x) for x in labels])
    return want


# ------------------------------------------------------------------ exhaustive parts
def values_domain(nfaces, axes):
    vals = [None]
    for g in range(nfaces):
        for b in axes:
            for r in (False, True):
                vals.append([g, b, r])
    vals.append([7, axes[0], False])
    vals.append([0, "Q", False])
    return vals


BASES = {
    "2x2": (2, ["X", "Y"], {"0": {"X": [None, [1, "X", False]], "Y": [[1, "Y", True], None]},
                             "1": {"X": [[0, "X", False], None], "Y": [[0, "Y", True], None]}}),
    "3x1": (3, ["X"], {"0": {"X": [[2, "X", False], [1, "X", False]]}, "1": {"X": [[0, "X", False], [2, "X", False]]},
                       "2": {"X": [[1, "X", False], [0, "X", False]]}}),
    "3x2": (3, ["X", "Y"], {"0": {"X": [None, [1, "Y", False]], "Y": [[0, "Y", True], [2, "X", True]]},
                             "1": {"X": [None, None], "Y": [[0, "X", False], None]},
                             "2": {"X": [None, [0, "Y", True]], "Y": [None, None]}}),
}


def _slots(table):
    return [(f, a, s) for f in sorted(table) for a in sorted(table[f]) for s in (0, 1)]


def _with(table, edits):
    t = {f: {a: list(v) for a, v in per.items()} for f, per in table.items()}
    for (f, a, s), v in edits:
        t[f][a][s] = v
    return t


def _enum(job):
    import warnings

    warnings.simplefilter("ignore")
    kind, key, lo, hi = job
    n = 0
    nt = 0
    acc = 0
    sample = None
    try:
        if kind == "all625":
            vals = [None, [0, "X", False], [0, "X", True], [1, "X", False], [1, "X", True]]
            combos = list(itertools.product(range(5), repeat=4))[lo:hi]
            for c in combos:
                t = {"0": {"X": [vals[c[0]], vals[c[1]]]}, "1": {"X": [vals[c[2]], vals[c[3]]]}}
                ok = assert_table(2, ["X"], t, "2 faces x 1 axis")
                # the same table with the faces listed in the other order
                assert_table(2, ["X"], {"1": t["1"], "0": t["0"]}, "2 faces x 1 axis (faces listed in reverse order)")
                n += 1
                acc += ok
                nt += any(c)
                sample = sample or t
        else:
            nfaces, axes, base = BASES[key]
            slots = _slots(base)
            vals = values_domain(nfaces, axes)
            if kind == "single":
                todo = [[(sl, v)] for sl in slots for v in vals if v != base[sl[0]][sl[1]][sl[2]]]
            else:
                pairs = list(itertools.combinations(slots, 2))[lo:hi]
                todo = [[(s1, v1), (s2, v2)] for s1, s2 in pairs
                        for v1 in vals if v1 != base[s1[0]][s1[1]][s1[2]]
                        for v2 in vals if v2 != base[s2[0]][s2[1]][s2[2]]]
            for edits in todo:
                t = _with(base, edits)
                ok = assert_table(nfaces, axes, t, f"{kind} edit of base {key}")
                n += 1
                acc += ok
                nt += 1
                sample = sample or t
    except Violation as v:
        return {"n": n, "nt": nt, "acc": acc, "sample": sample,
                "failure": {"case": {"nfaces": v.details["nfaces"], "axes": v.details["axes"], "table": v.details["table"], "edits": 0},
                            "what": v.what, "details": jsonable(v.details)}}
    return {"n": n, "nt": nt, "acc": acc, "sample": sample, "failure": None}


def exhaustive_part(tier, seed):
    jobs = [("all625", None, lo, min(625, lo + 40)) for lo in range(0, 625, 40)]
    for key in BASES:
        assert L.reciprocal(gen.table_to_model(BASES[key][2]), set(range(BASES[key][0])), set(BASES[key][1])), key
        jobs.append(("single", key, 0, 0))
    double_keys = ["2x2", "3x1"] if tier == "quick" else list(BASES)
    for key in double_keys:
        npairs = len(list(itertools.combinations(_slots(BASES[key][2]), 2)))
        for lo in range(0, npairs, 2):
            jobs.append(("double", key, lo, min(npairs, lo + 2)))
    with mp.get_context("spawn").Pool(16) as pool:
        outs = pool.map(_enum, jobs, chunksize=2)
    res = {"evaluations": 0, "nontrivial": [], "classes": {}, "samples": [], "failure": None, "excluded": {}, "notes": {},
           "harness_error": None, "budget_hit": False, "exhaustive": True, "nt_extra": 0}
    for job, o in zip(jobs, outs):
        res["evaluations"] += o["n"]
        res["nt_extra"] += o["nt"]
        k = f"enum:{job[0]}" + (f":{job[1]}" if job[1] else "")
        res["classes"][k] = res["classes"].get(k, 0) + o["n"]
        res["classes"]["enum:accepted"] = res["classes"].get("enum:accepted", 0) + o["acc"]
        if o["sample"] and len(res["samples"]) < 5 and job[2] == 0:
            res["samples"].append({"case": {"table": o["sample"], "family": k}, "classes": [k], "nontrivial": True})
        if o["failure"] and res["failure"] is None:
            res["failure"] = o["failure"]
    return {"result": res, "extra": {"enumerated_tables": res["evaluations"]}}


# ------------------------------------------------------------------ Hypothesis part
@st.composite
def strategy_impl(draw, tier):
    nfaces = draw(st.integers(2, 6))
    axes = draw(st.sampled_from([["X"], ["X", "Y"], ["X", "Y"]]))
    table = draw(gen.link_tables(nfaces, tuple(axes), min_pairs=0))
    nedits = draw(st.sampled_from([0, 0, 1, 1, 2, 3]))
    vals = values_domain(nfaces, axes)
    slots = [(f, a, s) for f in table for a in table[f] for s in (0, 1)]
    edits = []
    if slots:
        for _ in range(nedits):
            edits.append([list(draw(st.sampled_from(slots))), draw(st.sampled_from(vals))])
    special = draw(st.sampled_from(["none"] * 8 + ["two-facedims", "absent-facedim", "facedim-is-aux-coordinate", "facedim-is-data-variable",
                                                   "second-facedim-empty", "second-facedim-empty-first", "second-facedim-none", "absent-facedim-empty"]))
    # the order in which the faces (and the axes of a face) are listed is part of the input
    order = draw(st.permutations(sorted(table)))
    # the labels of the dataset's face coordinate: 0..n-1, or other integers (1-based tiles, a subset of a larger set);
    # "relabel" says whether the table is written with those labels (consistent) or still with 0..n-1
    labels = draw(st.sampled_from([None, None, "one-based", "sparse"]))
    return {"nfaces": nfaces, "axes": axes, "table": table, "edits": edits, "special": special, "face_order": list(order),
            "reverse_axes": draw(st.booleans()), "labels": labels, "relabel": draw(st.booleans()), "elsewhere_first": draw(st.booleans()),
            "flag_style": draw(st.sampled_from(["python", "python", "numpy", "int"]))}


def strategy(tier):
    return strategy_impl(tier)


def check(case, ctx):
    FLAG_STYLE[0] = case.get("flag_style", "python")
    table = {f: {a: list(v) for a, v in per.items()} for f, per in case["table"].items()}
    for e in case.get("edits") or []:
        (f, a, s), v = e
        table[f][a][s] = v
    nfaces, axes = case["nfaces"], case["axes"]
    if case.get("face_order"):
        table = {f: ({a: table[f][a] for a in reversed(list(table[f]))} if case.get("reverse_axes") else table[f]) for f in case["face_order"] if f in table}
    special = case.get("special", "none")
    labels = None
    if case.get("labels") == "one-based":
        labels = [i + 1 for i in range(nfaces)]
    elif case.get("labels") == "sparse":
        labels = [2 * i + 3 for i in range(nfaces)]
    if labels is not None and case.get("relabel"):
        m = {i: labels[i] for i in range(nfaces)}
        table = {str(m.get(int(f), int(f))): {a: [None if l is None else [m.get(int(l[0]), int(l[0])), l[1], l[2]] for l in sides]
                                                for a, sides in per.items()} for f, per in table.items()}
    if special == "none":
        want = assert_table(nfaces, axes, table, "random table", labels=labels, elsewhere_first=bool(case.get("elsewhere_first")))
    else:
        try:
            if special.startswith("second-facedim") or special == "absent-facedim-empty":
                # a second face-dimension entry that holds no links is still a second face dimension
                from xgcm import Grid

                ds_, gc_ = _dataset(nfaces, axes, labels)
                main = gen.table_to_xgcm(table, "face", flag_style=FLAG_STYLE[0])
                other = "bogus_dim" if special == "absent-facedim-empty" else "tile_id"
                empty = None if special == "second-facedim-none" else {}
                fc_ = {other: empty, **main} if special == "second-facedim-empty-first" else {**main, other: empty}
                Grid(ds_, coords=gc_, face_connections=fc_, autoparse_metadata=False, periodic=False)
            elif special == "two-facedims":
                build_grid(nfaces, axes, table, facedims=("face", "tile"))
            elif special == "facedim-is-aux-coordinate":
                build_grid(nfaces, axes, table, facedims=("tile_id",), labels=labels)
            elif special == "facedim-is-data-variable":
                build_grid(nfaces, axes, table, facedims=("face_area",), labels=labels)
            else:
                build_grid(nfaces, axes, table, facedims=("tile",))
            raise Violation(f"table with {special} accepted", table=table)
        except Violation:
            raise
        except Exception:  # noqa: BLE001
            want = False
    nlinks = sum(1 for per in table.values() for sides in per.values() for l in sides if l is not None)
    selfl = any(l is not None and str(l[0]) == f for f, per in table.items() for sides in per.values() for l in sides)
    classes = [f"faces:{nfaces}", f"naxes:{len(axes)}", f"edits:{len(case.get('edits') or [])}", f"accept:{want}", f"special:{special}",
               f"labels:{case.get('labels')}/{'relabelled' if case.get('relabel') else 'as-indices'}"]
    if selfl:
        classes.append("self-link")
    return {"nontrivial": nlinks > 0, "classes": classes}
