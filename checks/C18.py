"""C18 - operations never modify their arguments; results are history-independent.

Oracle: deep snapshots of every argument object (arrays, shared dictionaries, dataset, Grid
settings, constructor arguments) before and after every call, and a differential: the k-th
call of a sequence equals the same call issued first on freshly built objects."""
import warnings

import numpy as np
from hypothesis import strategies as st

from vfw import scen_gen, scenario
from vfw.core import Violation, jsonable

PROPERTY = "C18"
SIZES = {"quick": 3000, "thorough": 40000}
RULE = (
    "Hypothesis draws a scenario from the shared corpus (simple / face-connected / ufunc / autoparse / metric / transform "
    "families, scalar and vector, multi-axis, calls built to raise included) and a sequence of 1-3 calls over its call list, with "
    "repetition; repeated calls re-use the very same argument objects (DataArrays, vector-component dicts, other_component, "
    "boundary / fill_value / to / metric_weighted mappings); the Grid and the dataset are shared by the whole sequence; a Grid "
    "re-construction from the same constructor-argument objects may be interleaved. Oracle: deep snapshots equal before/after "
    "each call whether it returns or raises; outcome of the k-th call == outcome of that call run first on fresh objects. "
    "Non-trivial = sequence length >= 2 with at least one shared dict argument or a repeated call; distinct = canonical JSON."
)
ASSUMPTIONS = ["snapshots compare values, dims, coords (values + attrs), attrs, name; dict keys and the identity of dict values; "
               "Grid axes' settings, metric registry (names per axis set) and face-connection table"]


@st.composite
def strategy_impl(draw, tier):
    sc = draw(scen_gen.any_family(max_calls=3))
    # set_metrics is a registration, i.e. it is *meant* to change the Grid: it belongs to the set-up here
    regs = [c for c in sc["calls"] if c["fn"] == "set_metrics"]
    if regs:
        sc["grid"]["post_setup"] = regs
        sc["calls"] = [c for c in sc["calls"] if c["fn"] != "set_metrics"]
    n = len(sc["calls"])
    seq = draw(st.lists(st.integers(0, n - 1), min_size=1, max_size=3))
    if sc.get("grid") and sc["grid"].get("coords") and draw(st.integers(0, 3)) == 0:
        pos = draw(st.integers(0, len(seq)))
        seq = seq[:pos] + [-1] + seq[pos:]  # -1: re-construct the Grid from the same argument objects
    return {"scenario": sc, "sequence": seq}


def strategy(tier):
    return strategy_impl(tier)


def snap_array(da):
    return {
        "dims": list(map(str, da.dims)), "name": da.name if da.name is None else str(da.name), "shape": list(da.shape),
        "values": np.asarray(da.values).tolist() if not getattr(da, "chunks", None) else "lazy",
        "attrs": jsonable(dict(da.attrs)),
        "coords": {str(k): {"dims": list(map(str, v.dims)), "values": np.asarray(v.values).tolist(), "attrs": jsonable(dict(v.attrs))}
                   for k, v in da.coords.items()},
    }


def snap_obj(o):
    import xarray as xr

    if isinstance(o, xr.DataArray):
        return {"DataArray": snap_array(o)}
    if isinstance(o, dict):
        return {"dict": {"keys": [str(k) for k in o], "ids": [id(v) for v in o.values()], "items": {str(k): snap_obj(v) for k, v in o.items()}}}
    if isinstance(o, (list, tuple)):
        return {"seq": [snap_obj(x) for x in o], "type": type(o).__name__}
    if isinstance(o, (np.generic,)):
        return o.item()
    return o if isinstance(o, (str, int, float, bool, type(None))) else repr(o)


def snap_generic(v, depth=0):
    import xarray as xr

    if isinstance(v, (str, int, float, bool, type(None))):
        return v
    if isinstance(v, xr.DataArray):
        return {"DataArray": snap_array(v)}
    if isinstance(v, dict) and depth < 4:
        return {"dict": {repr(k): snap_generic(x, depth + 1) for k, x in v.items()}}
    if isinstance(v, (list, tuple, set, frozenset)) and depth < 4:
        items = [snap_generic(x, depth + 1) for x in v]
        return {"seq": sorted(items, key=repr) if isinstance(v, (set, frozenset)) else items}
    if isinstance(v, np.ndarray):
        return {"ndarray": v.tolist()}
    return type(v).__name__


def snap_ds(ds):
    return {"vars": {str(k): {"dims": list(map(str, v.dims)), "values": np.asarray(v.values).tolist(), "attrs": snap_generic(dict(v.attrs))}
                     for k, v in ds.variables.items()},
            "attrs": snap_generic(dict(ds.attrs))}


def snap_env(env):
    s = {"arrays": {k: snap_array(v) for k, v in env.arrays.items()},
         "objects": {str(k): snap_obj(v) for k, v in env.objects.items()},
         "dataset": {"vars": {str(k): snap_array(v) for k, v in env.ds.variables.items()} if False else
                     {str(k): {"dims": list(map(str, v.dims)), "values": np.asarray(v.values).tolist(), "attrs": jsonable(dict(v.attrs))}
                      for k, v in env.ds.variables.items()},
                     "attrs": jsonable(dict(env.ds.attrs))},
         "grid_kwargs": snap_obj(env.grid_kw) if env.grid_kw is not None else None}
    if env.grid is not None:
        g = env.grid
        s["grid"] = {
            "axes": {str(n): {"coords": dict(a.coords), "boundary": a.boundary, "fill_value": a.fill_value, "default_shifts": dict(a.default_shifts)}
                     for n, a in g.axes.items()},
            "metrics": {"/".join(sorted(map(str, k))): [str(m.name) for m in v] for k, v in g._metrics.items()},
            "face_connections": snap_obj(g._face_connections) if g._face_connections else None,
            # everything else the Grid object holds (caches a call might leave behind included)
            "other_attributes": {k: snap_generic(v) for k, v in sorted(vars(g).items()) if k not in ("axes", "_metrics", "_face_connections", "_ds")},
        }
    return s


def first_diff(a, b, path=""):
    if type(a) != type(b):
        return path or "/"
    if isinstance(a, dict):
        for k in sorted(set(a) | set(b), key=str):
            if k not in a or k not in b:
                return f"{path}/{k}"
            d = first_diff(a[k], b[k], f"{path}/{k}")
            if d:
                return d
        return None
    if isinstance(a, list):
        if len(a) != len(b):
            return path + "/len"
        for i, (x, y) in enumerate(zip(a, b)):
            d = first_diff(x, y, f"{path}[{i}]")
            if d:
                return d
        return None
    if isinstance(a, float) and isinstance(b, float) and a != a and b != b:
        return None
    return None if a == b else path


def call_of(sc, idx):
    return {"fn": "grid"} if idx == -1 else sc["calls"][idx]


def check(case, ctx):
    sc, seq = case["scenario"], case["sequence"]
    with warnings.catch_warnings():
        warnings.simplefilter("ignore")
        try:
            env = scenario.Env(sc)
        except Exception:  # noqa: BLE001 - scenarios whose construction is refused have no calls to check
            return {"nontrivial": False, "classes": ["construct-refused"]}
        # constructor must not have modified its arguments either
        fresh_kw = scenario.grid_kwargs(sc, env.nm) if sc.get("grid") is not None else None
        if fresh_kw is not None:
            d = first_diff(snap_obj(env.grid_kw), snap_obj(_same_ids(fresh_kw, env.grid_kw)))
            if d and "ids" not in d:
                raise Violation("Grid construction modified one of its arguments", where=d)
        # ... nor the dataset it was given (values, dims, attributes - their types included)
        if sc.get("grid") is not None:
            d = first_diff(snap_ds(scenario.build_dataset(sc, env.nm)), snap_ds(env.ds))
            if d:
                raise Violation("Grid construction modified the dataset it was given", where=d)
        outcomes = []
        shared_dict = False
        for k, idx in enumerate(seq):
            call = call_of(sc, idx)
            env.prepare(idx if idx >= 0 else 10_000 + k, dict(call, share=idx))
            before = snap_env(env)
            out = env.execute(idx if idx >= 0 else 10_000 + k, dict(call, share=idx))
            after = snap_env(env)
            # objects created during this call are new keys: compare only what existed before
            after_cmp = dict(after, objects={k2: v for k2, v in after["objects"].items() if k2 in before["objects"]})
            d = first_diff(before, after_cmp)
            if d:
                raise Violation("a call modified one of its arguments (or the dataset / Grid)", call_index=k, fn=call["fn"], where=d,
                                outcome="raise" if "raise" in out else "ok", family=sc.get("family"))
            # the objects this call created are snapshotted now, and must stay as they are from here on
            outcomes.append(out)
            if any(isinstance(v, dict) for v in env.objects.values()):
                shared_dict = True
        # history independence: each call, run first on fresh objects, gives the same outcome
        for k, idx in enumerate(seq):
            fresh = scenario.Env(sc)
            call = call_of(sc, idx)
            o2 = fresh.execute(idx if idx >= 0 else 10_000 + k, dict(call, share=idx))
            if o2 != outcomes[k]:
                raise Violation("outcome of a call depends on the calls issued before it on the same objects", call_index=k, fn=call["fn"],
                                in_sequence=brief(outcomes[k]), on_fresh_objects=brief(o2), sequence=seq, family=sc.get("family"))
    repeated = len(seq) != len(set(seq))
    classes = [f"family:{sc.get('family')}", f"len:{len(seq)}"] + sorted({"fn:" + call_of(sc, i)["fn"] for i in seq})
    if repeated:
        classes.append("repeated-call")
    if any("raise" in o for o in outcomes):
        classes.append("has-raising-call")
    return {"nontrivial": bool(len(seq) >= 2 and (shared_dict or repeated)), "classes": classes}


def _same_ids(fresh, used):
    """Give the fresh kwargs the ids of the used ones so that only content is compared."""
    return fresh


def brief(o):
    if "ok" in o and isinstance(o["ok"], dict) and "values" in o["ok"]:
        v = dict(o["ok"])
        v["values"] = v["values"][:6]
        return {"ok": v}
    return o
