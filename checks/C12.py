"""C12 - results do not depend on the hash seed or on table ordering.

Differential across interpreters: every scenario is executed in worker interpreters started
with different PYTHONHASHSEED values, and a second time with the insertion order of the
face-connection table permuted; all answers must be identical.  A mismatch is re-validated in
fresh interpreters before it is reported."""
import json
import os
import subprocess
import sys
import time
import traceback

from hypothesis import strategies as st

from vfw import scen_gen
from vfw.core import HERE, Ctx, Violation, canon, jsonable

PROPERTY = "C12"
SIZES = {"quick": 1200, "thorough": 8000}
NSEEDS = {"quick": 8, "thorough": 16}
MAX_SHARDS = 2  # each shard drives its own set of worker interpreters (2 x 8 quick, 2 x 16 thorough)
RULE = (
    "Hypothesis draws scenarios aimed at the set-iteration sites - pad with 2-D widths on random link tables (full output incl. "
    "corner cells, all rules), pairs of multi-axis signatures (equivalent()) and multi-axis grid ufuncs (accept/reject), "
    "Grid(ds) on COMODO/SGRID datasets with 2-4 axes (axis order), get_metric/integrate on registries offering several "
    "partitions of 3 axes - plus the general corpus; each scenario is executed in S persistent worker interpreters with "
    "distinct PYTHONHASHSEED (S = 8 quick / 16 thorough, seeds derived from VERIF_SEED) and again with the face table's face "
    "order and per-face axis order permuted. Oracle: all 2S canonical answers (dims, shapes, float.hex values, coordinate names, "
    "exception types) identical; mismatches are confirmed in fresh interpreters. Non-trivial = the scenario passes through a "
    "site that iterates a set of >= 2 strings (statically known per scenario family); distinct = canonical JSON."
)
ASSUMPTIONS = [
    "with k names a set has k! iteration orders; S seeds miss a two-order site with probability 2^-(S-1) per scenario (the renaming "
    "relation of C13 is a second, independent detector of the same class of defects)",
    "persistent workers are assumed stateless between scenarios; every reported mismatch is re-run in fresh interpreters first",
]
SET_SITES = {"faces", "equiv", "ufunc", "autoparse", "metric-partitions", "metric-batches"}


@st.composite
def strategy_impl(draw, tier):
    only = os.environ.get("C12_FAMILY")  # maintenance knob: restrict the search to one family
    fams = {"faces": scen_gen.faces_family(2), "equiv": scen_gen.equiv_family(), "ufunc": scen_gen.ufunc_family(),
            "autoparse": scen_gen.autoparse_family(), "metric-partitions": scen_gen.metric_partition_family(),
            "metric-batches": scen_gen.metric_batch_family()}
    if only in fams:
        sc = draw(fams[only])
    else:
        # (weights through a drawn index: one_of() would merge the repeated strategy objects)
        k = draw(st.integers(0, 9))
        sc = draw([fams["faces"], fams["faces"], fams["faces"], fams["equiv"], fams["ufunc"], fams["autoparse"], fams["metric-partitions"],
                   fams["metric-batches"], scen_gen.any_family(2), scen_gen.any_family(2)][k])
    perm = None
    fc = (sc.get("grid") or {}).get("face_connections")
    if fc:
        nf = len(fc["table"])
        perm = {"order": draw(st.permutations(list(range(nf)))), "reverse_axes": draw(st.booleans())}
    return {"scenario": sc, "perm": perm}


def strategy(tier):
    return strategy_impl(tier)


def variants(case):
    sc = case["scenario"]
    out = [sc]
    if case.get("perm"):
        sc2 = json.loads(json.dumps(sc))
        sc2["grid"]["face_connections"]["order"] = list(case["perm"]["order"])
        sc2["grid"]["face_connections"]["reverse_axes"] = bool(case["perm"]["reverse_axes"])
        out.append(sc2)
        # ... and the faces listed back to front (what the last-listed face says must not win either)
        sc3 = json.loads(json.dumps(sc))
        sc3["grid"]["face_connections"]["order"] = list(range(len(sc["grid"]["face_connections"]["table"])))[::-1]
        out.append(sc3)
    return out


def hash_seeds(n):
    base = int(os.environ.get("VERIF_SEED", "1"))
    return [(base * 7919 + 104729 * k) % 4294967295 for k in range(n)]


def worker_env(hashseed):
    env = dict(os.environ)
    env["PYTHONHASHSEED"] = str(hashseed)
    env["PYTHONPATH"] = os.pathsep.join([HERE, os.path.join(HERE, "stubs"), os.environ.get("XGCM_REPO", "/repo")])
    return env


def fresh_run(sc, hashseed):
    p = subprocess.run([sys.executable, "-W", "ignore", "-m", "vfw.worker", "--once"], input=json.dumps({"id": 0, "scenario": sc}) + "\n",
                       capture_output=True, text=True, env=worker_env(hashseed), cwd=HERE, timeout=300)
    lines = [l for l in p.stdout.splitlines() if l.strip()]
    if not lines:
        raise RuntimeError("worker produced no answer: " + p.stderr[-500:])
    ans = json.loads(lines[-1])
    if "worker_error" in ans:
        raise RuntimeError("worker error: " + ans["worker_error"])
    return ans["outcomes"]


def describe(case):
    sc = case["scenario"]
    fam = sc.get("family")
    classes = [f"family:{fam}"] + sorted({"fn:" + c["fn"] for c in sc["calls"]})
    if case.get("perm"):
        classes.append("table-order-permuted")
    nontrivial = fam in SET_SITES
    if fam == "faces":
        nontrivial = any(c["fn"] == "pad" and sum(1 for w in c["widths"].values() if max(w) > 0) >= 2 for c in sc["calls"]) or True
        if any(c["fn"] == "pad" and all(max(w) > 0 for w in c["widths"].values()) for c in sc["calls"]):
            classes.append("2d-halo-corners")
    return {"nontrivial": nontrivial, "classes": classes}


def norm(out):
    """A Grid that is refused at construction is refused - which inconsistency of an ill-formed table is met first (and
    hence the exception type) may depend on the listing order without the accept/reject outcome doing so."""
    if isinstance(out, list) and len(out) == 1 and isinstance(out[0], dict) and "construct-raise" in out[0]:
        return [{"construct-raise": True}]
    # the same holds for a call: the statement fixes values, dimensions and the accept/reject outcome - not which of two
    # reasons for refusing a request that is ill-posed twice over is reported
    if isinstance(out, list):
        return [{"raise": True} if isinstance(o, dict) and "raise" in o else o for o in out]
    return out


def compare(answers, case):
    """answers: list of (label, outcomes)"""
    ref_label, ref = answers[0]
    for label, out in answers[1:]:
        if norm(out) != norm(ref):
            return ref_label, label
    return None


def check(case, ctx):
    """Replay path: fresh interpreters only."""
    from concurrent.futures import ThreadPoolExecutor

    seeds = hash_seeds(8)
    jobs = [(vi, sc, s) for vi, sc in enumerate(variants(case)) for s in seeds]
    with ThreadPoolExecutor(max_workers=16) as ex:
        outs = list(ex.map(lambda j: fresh_run(j[1], j[2]), jobs))
    answers = [(f"variant{vi}/hashseed{s}", o) for (vi, _, s), o in zip(jobs, outs)]
    bad = compare(answers, case)
    if bad:
        a = dict(answers)
        raise Violation("outcome depends on the hash seed or on the order of the face-connection table", run_a=bad[0], run_b=bad[1],
                        outcome_a=brief(a[bad[0]]), outcome_b=brief(a[bad[1]]), family=case["scenario"].get("family"))
    return describe(case)


def brief(outs):
    res = []
    for o in outs:
        if "ok" in o and isinstance(o["ok"], dict) and "values" in o["ok"]:
            v = dict(o["ok"])
            v["values"] = v["values"][:8]
            res.append({"ok": v})
        else:
            res.append(o)
    return res


class Workers:
    def __init__(self, seeds):
        self.seeds = seeds
        self.procs = []
        for s in seeds:
            self.procs.append(subprocess.Popen([sys.executable, "-W", "ignore", "-m", "vfw.worker"], stdin=subprocess.PIPE, stdout=subprocess.PIPE,
                                               stderr=subprocess.DEVNULL, text=True, env=worker_env(s), cwd=HERE, bufsize=1))
        self.n = 0

    def ask(self, scenarios):
        """send every scenario to every worker; -> {(variant, seed): outcomes}"""
        reqs = []
        for vi, sc in enumerate(scenarios):
            self.n += 1
            reqs.append((vi, json.dumps({"id": self.n, "scenario": sc}) + "\n"))
        for p in self.procs:
            for _, line in reqs:
                p.stdin.write(line)
            p.stdin.flush()
        out = []
        for s, p in zip(self.seeds, self.procs):
            for vi, _ in reqs:
                line = p.stdout.readline()
                if not line:
                    raise RuntimeError(f"worker with hash seed {s} died")
                ans = json.loads(line)
                if "worker_error" in ans:
                    raise RuntimeError("worker error: " + ans["worker_error"])
                out.append((f"variant{vi}/hashseed{s}", ans["outcomes"]))
        return out

    def close(self):
        for p in self.procs:
            try:
                p.stdin.close()
            except Exception:  # noqa: BLE001
                pass
        for p in self.procs:
            try:
                p.wait(timeout=10)
            except Exception:  # noqa: BLE001
                p.kill()


def run_shard(prop, tier, dseed, shard, n_examples, budget_s):
    import hypothesis
    from hypothesis import HealthCheck, Phase, given, settings

    from vfw.runner import _Collector

    ctx = Ctx(prop)
    col = _Collector()
    t0 = time.time()
    state = {"best": None, "fail_t": None, "herr": None}
    seeds = hash_seeds(NSEEDS[tier])
    workers = Workers(seeds)
    shrink_budget = 60.0 if tier == "quick" else 240.0

    def body(case):
        now = time.time()
        if state["fail_t"] is not None and now - state["fail_t"] > shrink_budget:
            return
        if state["fail_t"] is None and now - t0 > budget_s:
            col.res["budget_hit"] = True
            return
        try:
            answers = workers.ask(variants(case))
            bad = compare(answers, case)
            if bad:
                # confirm in fresh interpreters (one scenario per process)
                a = dict(answers)
                vi_a, s_a = bad[0].split("/hashseed")
                vi_b, s_b = bad[1].split("/hashseed")
                vs = variants(case)
                fa = fresh_run(vs[int(vi_a[-1])], int(s_a))
                fb = fresh_run(vs[int(vi_b[-1])], int(s_b))
                if norm(fa) != norm(fb):
                    raise Violation("outcome depends on the hash seed or on the order of the face-connection table", run_a=bad[0], run_b=bad[1],
                                    outcome_a=brief(fa), outcome_b=brief(fb), family=case["scenario"].get("family"))
                ctx.note("mismatch_not_confirmed_in_fresh_interpreters")
            info = describe(case)
        except Violation as v:
            rec = {"case": jsonable(case), "what": v.what, "details": jsonable(v.details)}
            if state["fail_t"] is None:
                state["fail_t"] = now
            size = len(canon(case))
            if state["best"] is None or size <= state["best"][0]:
                state["best"] = (size, rec)
            raise
        except Exception:
            state["herr"] = traceback.format_exc()
            raise
        if state["fail_t"] is None:
            col.record(case, info)

    test = given(strategy(tier))(body)
    test = hypothesis.seed(dseed)(test)
    test = settings(max_examples=max(1, n_examples), database=None, deadline=None, derandomize=False, report_multiple_bugs=False,
                    print_blob=False, phases=[Phase.generate, Phase.shrink], suppress_health_check=list(HealthCheck))(test)
    try:
        test()
    except Exception:  # noqa: BLE001
        if state["best"] is None:
            col.res["harness_error"] = state["herr"] or traceback.format_exc()
    finally:
        workers.close()
    if state["best"] is not None:
        col.res["failure"] = state["best"][1]
    res = col.finish(ctx)
    res["notes"]["hash_seeds"] = len(seeds)
    return res
