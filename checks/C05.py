"""C05 - halo cells across every kind of face link come from the documented cell.

Oracle: index-level statement of the link semantics (vfw.model.links), applied to random
reciprocal link tables; plus the exchange-symmetry relation computed from outputs alone."""
import numpy as np
from hypothesis import strategies as st

from vfw import gen
from vfw.core import Violation, must_return
from vfw.model import links as L
from vfw.model import stencil as M

PROPERTY = "C05"
SIZES = {"quick": 4800, "thorough": 100000}
RULE = (
    "Hypothesis draws a random reciprocal link table over 2-6 faces and axes X, Y (partial matching of edge slots, self-links "
    "included), face size N 2-4, asymmetric widths 0..min(3,N) per side and axis (one axis optionally omitted), rule and "
    "fill value per axis for unlinked edges, scalar input or a vector component with other_component, 0-2 extra dims and "
    "the dim order. Oracle: halo cell (depth k, along-edge index e) = sign * source[g] at normal index k-1 from the linked "
    "edge, along-edge index e or N-1-e (axis-swapping non-reversed link), partner component across axis-swapping links; "
    "interior unchanged; shape grows by exactly the widths; corner cells masked. Exchange symmetry from outputs alone. "
    "Non-trivial = some halo cell with k>=1 is filled across a link and data not constant; distinct = canonical JSON."
)
ASSUMPTIONS = [
    "pad's output is compared by dimension name (the property fixes values and widths, not dimension order)",
    "corner cells (both indices in halos) are not compared here (C12 covers them)",
]
AXES = ("X", "Y")


@st.composite
def strategy_impl(draw, tier):
    nf = draw(st.integers(2, 6))
    N = draw(st.integers(2, 4))
    table = draw(gen.link_tables(nf, AXES, min_pairs=1))
    wmax = min(3, N)
    widths = {a: [draw(st.integers(0, wmax)), draw(st.integers(0, wmax))] for a in AXES}
    omit = draw(st.sampled_from([None, None, "X", "Y"]))
    if omit:
        widths.pop(omit)
    if all(w == [0, 0] for w in widths.values()):
        a = sorted(widths)[0]
        widths[a] = [1, draw(st.integers(0, wmax))]
    extra = draw(gen.extra_dims())
    lead = [e[1] for e in extra]
    kind = draw(st.sampled_from(["scalar", "X", "Y"]))
    arrays = {}
    for name in (["S"] if kind == "scalar" else ["U", "V"]):
        arrays[name] = draw(gen.data_values([nf] + lead + [N, N], elements=st.integers(-99, 99).map(float)))
    labels = ["face"] + [e[0] for e in extra] + ["Y", "X"]
    return {
        "nf": nf, "N": N, "table": table, "widths": widths,
        "bnd": {a: draw(st.sampled_from(M.RULES)) for a in AXES},
        "fill": {a: draw(st.integers(-5, 5).map(float)) for a in AXES},
        "kind": kind, "extra": extra, "order": draw(gen.permutations_of(labels)), "arrays": arrays,
        "bsrc": draw(st.sampled_from(["grid", "call"])),
        "face_order": list(draw(st.permutations(list(range(nf))))),
        "reverse_axes": draw(st.booleans()),
        "flag_style": draw(st.sampled_from(["python", "python", "numpy", "int"])),   # type of the reverse flags / face numbers in the links
        "via_2d": draw(st.booleans()),
        "order_v": draw(st.one_of(st.none(), gen.permutations_of(labels))),   # the partner may be stored in another dimension order
        "carry_coords": draw(st.booleans()),   # the inputs carry the dataset's coordinates (face labels included) or none
        "drop_unlinked": draw(st.booleans()),   # a face without any link is listed with an empty entry, or not listed at all
    }


def strategy(tier):
    return strategy_impl(tier)


def oracle(arrs, vecaxis, table, N, widths, bnd, fill):
    """arrs: {'S': a} or {'X': u, 'Y': v}; arrays [f, ..., y, x].  Returns padded main array and
    the mask of cells the statement determines (corners excluded)."""
    main = arrs[vecaxis] if vecaxis else arrs["S"]
    nf = main.shape[0]
    lead = main.shape[1:-2]
    (wxl, wxr), (wyl, wyr) = widths["X"], widths["Y"]
    out = np.full((nf,) + lead + (N + wyl + wyr, N + wxl + wxr), np.nan)
    known = np.zeros(out.shape, bool)
    out[..., wyl:wyl + N, wxl:wxl + N] = main
    known[..., wyl:wyl + N, wxl:wxl + N] = True
    crossed = 0
    for f in range(nf):
        for A in AXES:
            wl, wr = widths[A]
            for s, w in ((0, wl), (1, wr)):
                for k in range(1, w + 1):
                    for e in range(N):
                        src = L.halo_source(f, A, s, k, e, N, table)
                        if src is None:
                            b = bnd[A]
                            if b == "fill":
                                v = np.full(lead, fill[A])
                            else:
                                if b == "extend":
                                    idx = 0 if s == 0 else N - 1
                                else:  # periodic wrap inside the face
                                    idx = (N - k) if s == 0 else (k - 1)
                                v = main[f, ..., e, idx] if A == "X" else main[f, ..., idx, e]
                        else:
                            g, B, normal, along, swap, rev = src
                            crossed += 1
                            sign = 1
                            if vecaxis:
                                other = [a for a in AXES if a != vecaxis][0]
                                source = arrs[other] if swap else arrs[vecaxis]
                                sign = L.vector_sign(vecaxis, A, swap, rev)
                            else:
                                source = arrs["S"]
                            v = sign * (source[g, ..., along, normal] if B == "X" else source[g, ..., normal, along])
                        pos = (wl - k) if s == 0 else (wl + N + k - 1)
                        if A == "X":
                            out[f, ..., wyl + e, pos] = v
                            known[f, ..., wyl + e, pos] = True
                        else:
                            out[f, ..., pos, wxl + e] = v
                            known[f, ..., pos, wxl + e] = True
    return out, known, crossed


def make_grid(case):
    import xarray as xr
    from xgcm import Grid

    N, nf = case["N"], case["nf"]
    coords = {"xc": ("xc", np.arange(N) + 0.5), "xl": ("xl", np.arange(N) * 1.0), "yc": ("yc", np.arange(N) + 0.5),
              "yl": ("yl", np.arange(N) * 1.0), "face": ("face", np.arange(nf))}
    for name, size in case["extra"]:
        coords[name] = (name, np.arange(size) * 1.0)
    ds = xr.Dataset(coords=coords)
    kw = {}
    if case["bsrc"] == "grid":
        kw = {"boundary": dict(case["bnd"]), "fill_value": dict(case["fill"])}
    tab = case["table"]
    if case.get("drop_unlinked"):
        tab = {f: per for f, per in tab.items() if any(l is not None for sides in per.values() for l in sides)}
    return Grid(ds, coords={"X": {"center": "xc", "left": "xl"}, "Y": {"center": "yc", "left": "yl"}},
                face_connections=gen.table_to_xgcm(tab, face_order=case.get("face_order"), reverse_axes=case.get("reverse_axes", False), flag_style=case.get("flag_style", "python")),
                autoparse_metadata=False, periodic=False, **kw)


def dims_for(case, ydim, xdim, which="order"):
    base = ["face"] + [e[0] for e in case["extra"]] + [ydim, xdim]
    order = [{"Y": ydim, "X": xdim}.get(l, l) for l in (case.get(which) or case["order"])]
    return base, order


def check(case, ctx):
    import xarray as xr
    from xgcm.padding import pad

    N, nf = case["N"], case["nf"]
    table = gen.table_to_model(case["table"])
    if case.get("face_order") is not None and len(case["table"]) >= 2:
        # a second Grid with *another* (fully unlinked) topology and other rules on the same interpreter, used first
        decoy_case = dict(case, table={f: {} for f in case["table"]}, bnd={a: "extend" for a in AXES}, fill={a: -9.0 for a in AXES}, bsrc="grid")
        try:
            import xarray as _xr

            dg = make_grid(decoy_case)
            pad(_xr.DataArray(np.zeros((case["nf"], N, N)), dims=["face", "yc", "xc"]), dg, boundary_width={"X": (1, 1), "Y": (1, 1)})
        except Exception:  # noqa: BLE001 - the decoy is only there to leave traces, if any
            pass
    grid = must_return("Grid construction", make_grid, case)
    fullw = {a: tuple(case["widths"].get(a, (0, 0))) for a in AXES}
    arrs = {k: np.asarray(v, dtype=np.float64) for k, v in case["arrays"].items()}
    ckw = {}
    if case["bsrc"] == "call":
        ckw = {"boundary": dict(case["bnd"]), "fill_value": dict(case["fill"])}
    if case["kind"] == "scalar":
        base, order = dims_for(case, "yc", "xc")
        data = xr.DataArray(arrs["S"], dims=base).transpose(*order)
        other = None
        vec = None
        model_arrs = {"S": arrs["S"]}
    else:
        ub, uo = dims_for(case, "yc", "xl")
        vb, vo = dims_for(case, "yl", "xc", "order_v")
        uda = xr.DataArray(arrs["U"], dims=ub).transpose(*uo)
        vda = xr.DataArray(arrs["V"], dims=vb).transpose(*vo)
        vec = case["kind"]
        data, other = ({"X": uda}, {"Y": vda}) if vec == "X" else ({"Y": vda}, {"X": uda})
        base = ub if vec == "X" else vb
        model_arrs = {"X": arrs["U"], "Y": arrs["V"]}
    if case.get("carry_coords"):
        dsc = {"xc": ("xc", np.arange(N) + 0.5), "xl": ("xl", np.arange(N) * 1.0), "yc": ("yc", np.arange(N) + 0.5),
               "yl": ("yl", np.arange(N) * 1.0), "face": ("face", np.arange(nf))}
        dsc.update({name: (name, np.arange(size) * 1.0) for name, size in case["extra"]})

        def labelled(x):
            return x.assign_coords({d: dsc[d] for d in x.dims if d in dsc})

        if case["kind"] == "scalar":
            data = labelled(data)
        else:
            uda, vda = labelled(uda), labelled(vda)
            data, other = ({"X": uda}, {"Y": vda}) if vec == "X" else ({"Y": vda}, {"X": uda})
    if vec is not None:
        # the Grid is used for a scalar padding with other widths first: earlier calls must not matter
        probe = xr.DataArray(np.arange(float(nf * N * N)).reshape(nf, N, N), dims=["face", "yc", "xc"])
        must_return("scalar pad before the vector pad", pad, probe, grid, boundary_width={"X": (1, 0), "Y": (0, 1)})
    exp, known, crossed = oracle(model_arrs, vec, table, N, fullw, case["bnd"], case["fill"])
    got = must_return("pad", pad, data, grid, boundary_width={a: tuple(w) for a, w in case["widths"].items()},
                      other_component=other, **ckw)
    if set(got.dims) != set(base):
        raise Violation("padded array has other dimensions", got=list(got.dims), expected=base)
    gv = np.asarray(got.transpose(*base).values)
    if gv.shape != exp.shape:
        raise Violation("padded shape is not input + requested widths", got=list(gv.shape), expected=list(exp.shape), widths=case["widths"])
    bad = known & (gv != exp)
    if bad.any():
        i0 = tuple(int(x) for x in np.argwhere(bad)[0])
        raise Violation("halo/interior cell differs from the documented source cell", index=list(i0), dims=base,
                        got=float(gv[i0]), expected=float(exp[i0]), n_bad=int(bad.sum()))

    # the very same input objects updated in place (a time-stepping loop): the halo follows the new values
    upd = {k: 3 - 2 * v for k, v in arrs.items()}
    if case["kind"] == "scalar":
        data.values[...] = xr.DataArray(upd["S"], dims=base).transpose(*order).values
        model_upd = {"S": upd["S"]}
    else:
        uda.values[...] = xr.DataArray(upd["U"], dims=ub).transpose(*uo).values
        vda.values[...] = xr.DataArray(upd["V"], dims=vb).transpose(*vo).values
        model_upd = {"X": upd["U"], "Y": upd["V"]}
    exp_u, known_u, _ = oracle(model_upd, vec, table, N, fullw, case["bnd"], case["fill"])
    got_u = must_return("pad (inputs updated in place)", pad, data, grid, boundary_width={a: tuple(w) for a, w in case["widths"].items()},
                        other_component=other, **ckw)
    gu = np.asarray(got_u.transpose(*base).values)
    if gu.shape != exp_u.shape or (known_u & (gu != exp_u)).any():
        raise Violation("after the input objects were updated in place the halo does not hold the new values of the documented cells",
                        n_bad=int((known_u & (gu != exp_u)).sum()) if gu.shape == exp_u.shape else None)
    model_arrs = model_upd

    # the same halo seen through the public two-component entry point: diff_2d_vector(to centre) of a (left, left)
    # vector is (right halo cell - last cell) on the last column/row of each component
    via2d = False
    if vec is not None and case.get("via_2d"):
        res = must_return("diff_2d_vector", grid.diff_2d_vector, {"X": uda, "Y": vda}, to="center", **ckw)
        for A, da_in, pos in (("X", "U", -1), ("Y", "V", -2)):
            w1 = {a: ((0, 1) if a == A else (0, 0)) for a in AXES}
            e1, k1, _ = oracle(model_arrs, A, table, N, w1, case["bnd"], case["fill"])
            ed = np.diff(e1, axis=pos)
            kd = np.logical_and(np.take(k1, range(1, N + 1), axis=pos), np.take(k1, range(0, N), axis=pos))
            b2 = ["face"] + [e[0] for e in case["extra"]] + ["yc", "xc"]
            if set(res[A].dims) != set(b2):
                raise Violation("diff_2d_vector component has other dimensions", got=list(res[A].dims), expected=b2)
            g2 = np.asarray(res[A].transpose(*b2).values)
            bad2 = kd & (g2 != ed)
            if g2.shape != ed.shape or bad2.any():
                i0 = tuple(int(x) for x in np.argwhere(bad2)[0]) if g2.shape == ed.shape else ()
                raise Violation("diff_2d_vector differs from the difference of the documented halo cell and the edge cell",
                                component=A, index=list(i0), got=float(g2[i0]) if i0 else None, expected=float(ed[i0]) if i0 else None)
        via2d = True

    # exchange symmetry, from outputs alone (scalar cell ids, full widths)
    sym_checked = False
    if case["kind"] == "scalar":
        w = min(3, N)
        ids = np.arange(nf * N * N, dtype=np.float64).reshape(nf, N, N)
        P = must_return("pad (cell ids)", pad, xr.DataArray(ids, dims=["face", "yc", "xc"]), grid,
                        boundary_width={"X": (w, w), "Y": (w, w)}, boundary="fill", fill_value=-1.0)
        P = np.asarray(P.transpose("face", "yc", "xc").values)
        pairs = set()
        for f in range(nf):
            for A in AXES:
                for s in (0, 1):
                    if table.get(f, {}).get(A, (None, None))[s] is None:
                        continue
                    for k in range(1, w + 1):
                        for e in range(N):
                            halo = (w - k) if s == 0 else (w + N + k - 1)
                            own = (w + k - 1) if s == 0 else (w + N - k)
                            if A == "X":
                                seen, mine = P[f, w + e, halo], P[f, w + e, own]
                            else:
                                seen, mine = P[f, halo, w + e], P[f, own, w + e]
                            pairs.add((int(mine), int(seen), k))
        for mine, seen, k in pairs:
            if (seen, mine, k) not in pairs:
                raise Violation("linked faces do not see each other symmetrically", own_cell=mine, sees=seen, depth=k, N=N)
        sym_checked = True

    kinds = set()
    for f, per in table.items():
        for a, sides in per.items():
            for s, l in enumerate(sides):
                if l is not None:
                    kinds.add(("R" if s else "L") + ("swap" if l[1] != a else "same") + ("rev" if l[2] else "nor"))
                    if l[0] == f:
                        kinds.add("self-link")
    nonconst = any(np.ptp(a) > 0 for a in arrs.values())
    classes = [f"kind:{case['kind']}", f"faces:{nf}", f"N:{N}", f"wmax:{max(max(w) for w in fullw.values())}"]
    classes += sorted("link:" + k for k in kinds) + [f"rule:{case['bnd'][a]}" for a in AXES]
    if len(case["widths"]) == 1:
        classes.append("one-axis-omitted")
    if any(w[0] != w[1] for w in fullw.values()):
        classes.append("asymmetric")
    if sym_checked:
        classes.append("symmetry-checked")
    if via2d:
        classes.append("via-diff_2d_vector")
    if case.get("drop_unlinked") and any(all(l is None for sides in per.values() for l in sides) for per in case["table"].values()):
        classes.append("unlinked-face-not-listed")
    return {"nontrivial": bool(crossed > 0 and nonconst), "classes": classes}
