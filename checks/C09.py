"""C09 - cumsum is the running sum at the shifted position and inverts diff.

Oracle: geometric running-sum model (sum of inputs whose coordinate lies before the target
point; leading value from the boundary rule), plus the inverse / commutation / cumint
relations through the public API."""
import numpy as np
from hypothesis import strategies as st

from vfw import build, gen
from vfw.core import Violation, must_return
from vfw.model import stencil as M

PROPERTY = "C09"
SIZES = {"quick": 6400, "thorough": 160000}
RULE = (
    "Hypothesis draws a layout (1-3 axes, any positions, 2-6 cells; thorough 2-9), an array on drawn positions "
    "with extra dims in drawn order, 1-3 operated axes in drawn order, `to` explicit or omitted, rule/fill at "
    "grid level and/or per call, optional metric weighting and a cumint variant (1-D positive non-uniform "
    "metrics per position). Oracle: geometric running-sum model; relations diff(cumsum)=id, axis-order "
    "independence, cumint=cumsum(data*metric), last value=integrate. Non-trivial = a target that starts "
    "before the first input point (rule-dependent leading value) or >=2 operated axes; distinct = canonical JSON."
)
ASSUMPTIONS = [
    "values are compared exactly where the model performs the same floating-point operations in the same order "
    "(single-axis and sequential multi-axis sums); relations that re-associate sums use rtol 1e-9 (exact on integer data)",
]

metric_vals = st.integers(1, 24).map(lambda k: k / 4.0)


@st.composite
def strategy_impl(draw, tier):
    max_n = 6 if tier == "quick" else 9
    axes = draw(gen.layouts(max_n=max_n, max_cells=300 if tier == "quick" else 700, big_n=True))
    if all(len(a["positions"]) == 1 for a in axes):
        k = draw(st.integers(0, len(axes) - 1))
        axes[k]["positions"].append(draw(st.sampled_from(gen.OTHER_POS)))
    names = [a["name"] for a in axes]
    by_name = {a["name"]: a for a in axes}
    shiftable = [a["name"] for a in axes if len(a["positions"]) > 1]
    op_axes = draw(st.lists(st.sampled_from(shiftable), min_size=1, max_size=len(shiftable), unique=True))
    carried = [n for n in names if n not in op_axes and draw(st.booleans())]
    data_pos = {n: draw(st.sampled_from(by_name[n]["positions"])) for n in op_axes + carried}
    to = None
    if draw(st.booleans()):
        to = {n: (draw(st.sampled_from(by_name[n]["positions"][1:])) if data_pos[n] == "center" else "center") for n in op_axes}
    extra = draw(gen.extra_dims())
    dims = [gen.dim_name(n, data_pos[n]) for n in op_axes + carried] + [e[0] for e in extra]
    sizes = {gen.dim_name(n, data_pos[n]): gen.pos_len(by_name[n]["n"], data_pos[n]) for n in op_axes + carried}
    sizes.update({e[0]: e[1] for e in extra})
    order = draw(gen.permutations_of(dims))
    integer_data = draw(st.booleans())
    values = draw(gen.data_values([sizes[d] for d in order], elements=gen.small_ints if integer_data else None))
    # narrow integer types and boolean masks are data as well (wet-cell counts): the running sum is the sum, not the sum
    # modulo the width of the type
    dtype = draw(st.sampled_from(["float64", "float64", "float64", "float32", "int8", "bool", "int32"])) if integer_data else "float64"
    metrics = {}
    for a in axes:
        for p in a["positions"]:
            L = gen.pos_len(a["n"], p)
            metrics[gen.dim_name(a["name"], p)] = draw(st.lists(metric_vals, min_size=L, max_size=L))
    return {
        "axes": axes,
        "grid": draw(gen.grid_settings(names, exotic=False)),
        "op_axes": op_axes,
        "axis_spelling": draw(st.sampled_from(["str", "list", "tuple"] if len(op_axes) == 1 else ["list", "tuple"])),
        "data_pos": data_pos,
        "dims": order,
        "values": values,
        "to": to,
        "to_extra": {n: draw(st.sampled_from(by_name[n]["positions"])) for n in names if n not in op_axes and draw(st.booleans())},
        "to_spelling": "omit" if to is None else draw(st.sampled_from(["scalar", "dict"] if len(set(to.values())) == 1 else ["dict"])),
        "call_boundary": draw(gen.boundary_spelling(names)),
        "call_fill": draw(gen.fill_spelling(names)),
        "metrics": metrics,
        "mode": draw(st.sampled_from(["plain", "plain", "weighted", "cumint"])),
        "dtype": dtype,
    }


def strategy(tier):
    return strategy_impl(tier)


def table_cases():
    """The finite table behind the property, in full: 8 shifts x 3 rules x 7 sources of rule / fill value x {plain, weighted,
    cumint} on one small fixed array (random search reaches a given cell of this product only now and then)."""
    vals = [[3.0, -1.0, 4.0, -1.0, 5.0], [-2.0, 7.0, 1.0, -8.0, 2.0]]
    out = []
    for frm, to in M.VALID_SHIFTS:
        n = 5 - M.LEN_DELTA[frm]
        positions = ["center"] + [p for p in gen.OTHER_POS if p in (frm, to)]
        axis = {"name": "X", "n": n, "positions": positions, "default_shifts": None}
        metrics = {gen.dim_name("X", p): [1.0 + 0.5 * i for i in range(gen.pos_len(n, p))] for p in positions}
        for rule in M.RULES:
            for label, grid, cb, cf in gen.rule_sources(rule):
                for mode in ("plain", "weighted", "cumint"):
                    out.append({"axes": [axis], "grid": grid, "op_axes": ["X"], "axis_spelling": "str", "data_pos": {"X": frm},
                                "dims": ["e0", gen.dim_name("X", frm)], "values": vals, "to": {"X": to}, "to_extra": {}, "to_spelling": "scalar",
                                "call_boundary": cb, "call_fill": cf, "metrics": metrics, "mode": mode, "dtype": "float64"})
    return out


def exhaustive_part(tier, seed):
    from vfw.runner import enumerate_cases

    cases = table_cases()
    return {"result": enumerate_cases(PROPERTY, cases), "extra": {"enumerated_table_cells": len(cases)}}


def spell_axis(op_axes, spelling):
    if spelling == "str":
        return op_axes[0]
    return tuple(op_axes) if spelling == "tuple" else list(op_axes)


def bkwargs(case):
    kw = {}
    if case["call_boundary"] is not None:
        kw["boundary"] = build.copy_arg(case["call_boundary"])
    if case["call_fill"] is not None:
        kw["fill_value"] = build.copy_arg(case["call_fill"])
    return kw


def to_kw(case, targets, explicit):
    if not explicit:
        return {}
    if case["to_spelling"] == "scalar":
        return {"to": next(iter(targets.values()))}
    return {"to": dict(case.get("to_extra") or {}, **targets)}


def bcast(vec, k, ndim):
    shape = [1] * ndim
    shape[k] = len(vec)
    return np.asarray(vec, dtype=np.float64).reshape(shape)


def _int_fills(v):
    if isinstance(v, dict):
        return {k: _int_fills(x) for k, x in v.items()}
    if isinstance(v, (int, float)) and not isinstance(v, bool):
        return float(np.floor(v))
    return v


def check(case, ctx):
    import xarray as xr

    if case.get("dtype") in ("int8", "bool", "int32") and case["mode"] == "plain":
        # an integer array cannot hold a fractional fill value: for integer data the fill values are whole numbers
        # (as in C01: "numbers both types represent exactly")
        case = dict(case, call_fill=_int_fills(case["call_fill"]), grid=dict(case["grid"], fill_value=_int_fills(case["grid"]["fill_value"])))
    axes = case["axes"]
    names = [a["name"] for a in axes]
    by_name = {a["name"]: a for a in axes}
    shape = np.shape(case["values"])
    ds = build.make_dataset(axes, [(d, s) for d, s in zip(case["dims"], shape) if d.startswith("e")])
    for d, vals in case["metrics"].items():
        ds["m_" + d] = xr.DataArray(np.asarray(vals, dtype=np.float64), dims=[d])
    metrics_arg = {(a["name"],): ["m_" + gen.dim_name(a["name"], p) for p in a["positions"]] for a in axes}
    grid = must_return("Grid construction", build.make_grid, ds, axes, metrics=metrics_arg, **build.grid_kwargs(case["grid"]))
    g_rules, g_fills = M.grid_level_rule(names, case["grid"]["periodic"], case["grid"]["boundary"], case["grid"]["fill_value"])
    rules, fills = M.rule_in_force(names, g_rules, g_fills, case["call_boundary"], case["call_fill"])
    targets = {}
    for n in case["op_axes"]:
        targets[n] = case["to"][n] if case["to"] is not None else M.default_target(
            by_name[n]["positions"], case["data_pos"][n], by_name[n]["default_shifts"])

    plain32 = case.get("dtype") == "float32" and case["mode"] == "plain"  # (metrics are float64: weighting promotes anyway)
    narrow = case.get("dtype") if (case.get("dtype") in ("int8", "bool", "int32") and case["mode"] == "plain") else None
    vals0 = np.asarray(case["values"], dtype=np.float64)
    if narrow == "bool":
        vals0 = (vals0 != 0).astype(np.float64)
    elif narrow == "int8":
        vals0 = np.clip(vals0 * 25.0, -100, 100)          # sums leave the range of the type
    elif narrow == "int32":
        vals0 = np.clip(vals0, -4, 4) * 5.0e8
    a0 = vals0.astype("float32" if plain32 else "float64")
    dims0 = list(case["dims"])
    da = build.data_array(vals0.tolist(), dims0, name="phi").astype(narrow or a0.dtype)
    plain32 = plain32 or bool(narrow)   # (the steps below that rewrite the data in place are for floating-point data)
    mode = case["mode"]
    ax_arg = spell_axis(case["op_axes"], case["axis_spelling"])
    kw = dict(bkwargs(case), **to_kw(case, targets, case["to"] is not None))

    # ---- reference
    def reference(a_in):
        a = a_in.copy()
        dims = list(dims0)
        lead = False
        if mode == "cumint":
            for n in case["op_axes"]:
                k = dims.index(gen.dim_name(n, case["data_pos"][n]))
                a = a * bcast(case["metrics"][dims[k]], k, a.ndim)
        for n in case["op_axes"]:
            frm, to = case["data_pos"][n], targets[n]
            k = dims.index(gen.dim_name(n, frm))
            if mode == "weighted":
                a = a * bcast(case["metrics"][dims[k]], k, a.ndim)
            a, ld = M.cumsum(a, k, by_name[n]["n"], frm, to, rules[n], fills[n])
            lead = lead or ld
            dims[k] = gen.dim_name(n, to)
            if mode == "weighted":
                a = a / bcast(case["metrics"][dims[k]], k, a.ndim)
        return a, dims, lead

    a, dims, lead = reference(a0)
    exp, exp_dims = a, dims

    # ---- xgcm
    if mode == "plain":
        got = must_return("Grid.cumsum", grid.cumsum, da, ax_arg, **kw)
    elif mode == "weighted":
        mw = {n: (n,) for n in case["op_axes"]}
        got = must_return("Grid.cumsum(metric_weighted)", grid.cumsum, da, ax_arg, metric_weighted=mw, **kw)
    else:
        got = must_return("Grid.cumint", grid.cumint, da, ax_arg, **kw)
    exact = mode == "plain" or len(case["op_axes"]) == 1
    compare(got, exp, exp_dims, f"{mode} cumsum vs running-sum model", exact=exact)

    classes = [f"mode:{mode}", f"naxes:{len(case['op_axes'])}", f"data:{narrow or a0.dtype.name}"]
    classes += [f"shift:{case['data_pos'][n]}>{targets[n]}" for n in case["op_axes"]]
    classes += [f"rule:{rules[n]}" for n in case["op_axes"]]

    # ---- relations through the public API
    if mode == "plain":
        # (a) diff inverts cumsum-to-outer with zero fill
        for n in case["op_axes"]:
            if case["data_pos"][n] == "center" and "outer" in by_name[n]["positions"]:
                cs = must_return("cumsum to outer", grid.cumsum, da, n, to="outer", boundary="fill", fill_value=0.0)
                back = must_return("diff of cumsum", grid.diff, cs, n, to="center")
                compare(back, a0, dims0, "diff(cumsum(a, to=outer, fill 0)) vs a", exact=False, integer=is_integer(a0))
                classes.append("rel:inverse")
                break
        # (b) axis order does not matter unless a non-zero fill value is in force
        if len(case["op_axes"]) > 1 and all(rules[n] != "fill" or fills[n] == 0 for n in case["op_axes"]):
            rev = list(reversed(case["op_axes"]))
            got_r = must_return("Grid.cumsum reversed axis order", grid.cumsum, da, rev, **kw)
            got_r = got_r.transpose(*got.dims)
            compare(got_r, np.asarray(got.values), list(got.dims), "cumsum over axes in reversed order", exact=False, integer=is_integer(a0))
            classes.append("rel:order")
    if mode == "cumint":
        # last value on outer / right targets equals integrate
        for n in case["op_axes"][:1]:
            if targets[n] in ("outer", "right") and len(case["op_axes"]) == 1:
                integ = must_return("Grid.integrate", grid.integrate, da, n)
                last = got.isel({gen.dim_name(n, targets[n]): -1})
                lv = np.asarray(last.transpose(*integ.dims).values)
                iv = np.asarray(integ.values)
                if not np.allclose(lv, iv, rtol=1e-9, atol=1e-9 * max(1.0, float(np.abs(iv).max(initial=0)))):
                    raise Violation("last value of cumint differs from integrate", got=lv.tolist(), expected=iv.tolist())
                classes.append("rel:integrate")
    # the pre-defined 1-D cumsum grid ufuncs of xgcm.gridops called directly (rule and fill value spelled out per call)
    if mode == "plain" and len(case["op_axes"]) == 1 and not plain32:
        from xgcm import gridops

        n = case["op_axes"][0]
        uf = getattr(gridops, f"cumsum_{case['data_pos'][n]}_to_{targets[n]}", None)
        if uf is not None:
            direct = must_return(f"gridops.cumsum_{case['data_pos'][n]}_to_{targets[n]}", uf, grid, da, axis=[(n,)],
                                 boundary={n: rules[n]}, fill_value={n: fills[n]})
            compare(direct.transpose(*exp_dims), exp, exp_dims, "pre-defined cumsum grid ufunc called directly vs running-sum model", exact=exact)
            classes.append("direct-gridops-ufunc")
    # history independence: the main call again after the other calls on this Grid
    if mode == "plain":
        must_return("cumsum with another boundary treatment", grid.cumsum, da, list(case["op_axes"]), boundary="fill", fill_value=41.5)
        again = must_return("Grid.cumsum (repeated)", grid.cumsum, da, ax_arg, **kw)
        compare(again, exp, exp_dims, "the same cumsum repeated after other calls on the same Grid", exact=exact)
    # the very same input object updated in place: the running sum follows the new values
    if not plain32:
        a1 = 3 - 2 * a0
        da.values[...] = a1
        exp_u, exp_dims_u, _ = reference(a1)
        fn_u = {"plain": grid.cumsum, "weighted": grid.cumsum, "cumint": grid.cumint}[mode]
        kw_u = dict(kw, metric_weighted={n: (n,) for n in case["op_axes"]}) if mode == "weighted" else kw
        upd = must_return("running sum (input updated in place)", fn_u, da, ax_arg, **kw_u)
        compare(upd, exp_u, exp_dims_u, "running sum after the input object was updated in place", exact=exact)
    return {"nontrivial": bool(lead or len(case["op_axes"]) > 1), "classes": classes}


def is_integer(a):
    return bool(np.all(a == np.round(a)) and np.abs(a).max(initial=0) < 1e6)


def compare(got, exp, exp_dims, what, exact=True, integer=False):
    if list(got.dims) != list(exp_dims):
        raise Violation(f"{what}: dims differ", got=list(got.dims), expected=list(exp_dims))
    gv = np.asarray(got.values)
    if gv.shape != exp.shape:
        raise Violation(f"{what}: shape differs", got=list(gv.shape), expected=list(exp.shape))
    if exact or integer:
        bad = gv != exp
    else:
        scale = max(1.0, float(np.abs(exp).max(initial=0)))
        bad = ~np.isclose(gv, exp, rtol=1e-9, atol=1e-9 * scale)
    if bad.any():
        i = tuple(int(x) for x in np.argwhere(bad)[0])
        raise Violation(f"{what}: values differ", index=list(i), got=float(gv[i]), expected=float(exp[i]), n_bad=int(bad.sum()))
