"""C04 - vector components cross rotated face links with the right partner and sign.

Oracle: geometric - edge-flux fields U (x-edges) and V (y-edges) of the undivided domain;
the face components are the fluxes through the local-left edges in the local + direction.
The missing right-edge value of the last cell is the true global edge value where a link
exists, else the boundary rule; divergence is compared with the undivided divergence."""
import numpy as np
from hypothesis import strategies as st

from checks.C03 import link_kinds, table_json
from vfw import gen
from vfw.core import Violation, must_return
from vfw.model import topology as T

PROPERTY = "C04"
SIZES = {"quick": 2400, "thorough": 60000}
RULE = (
    "Hypothesis draws Kx x Ky faces (1-3 x 1-2; thorough up to 3x3) of N x N cells (N 2-4), periodic/open per direction, "
    "per-face D4 orientations restricted by construction to decompositions whose links are all non-reversed (incl. the "
    "single face without face_connections), global edge-flux fields U, V with 0-2 extra dims, dim order, operator "
    "(diff/interp), rule and fill on open edges. Oracle: undivided edge fields + divergence; on a grid without face "
    "connections the three spellings (vector form with other_component, vector form alone, bare array) must agree. "
    "Non-trivial = a link is crossed by the operated component (>=1 linked right edge) and the fields are not constant, "
    "or the simple-grid clause is exercised; distinct = canonical JSON."
)
ASSUMPTIONS = ["C-grid components on (X:left, Y:center) and (X:center, Y:left) moved to cell centres (the property's domain)"]


@st.composite
def strategy_impl(draw, tier):
    simple = draw(st.integers(0, 4)) == 0  # the single-face grid without face_connections
    Kx = 1 if simple else draw(st.integers(1, 3))
    Ky = 1 if simple else draw(st.integers(1, 2 if tier == "quick" else 3))
    N = draw(st.integers(2, 4))
    px, py = (False, False) if simple else (draw(st.booleans()), draw(st.booleans()))
    prefs = [draw(st.permutations(list(range(8)))) for _ in range(Kx * Ky)]
    extra = draw(gen.extra_dims())
    lead = [e[1] for e in extra]
    integer = draw(st.booleans())
    el = gen.small_ints if integer else None
    U = draw(gen.data_values(lead + [Ky * N, Kx * N + 1], elements=el))
    V = draw(gen.data_values(lead + [Ky * N + 1, Kx * N], elements=el))
    labels = ["face"] + [e[0] for e in extra] + ["Y", "X"]
    return {
        "Kx": Kx, "Ky": Ky, "N": N, "px": px, "py": py, "prefs": [list(p) for p in prefs],
        "extra": extra, "order": draw(gen.permutations_of(labels)), "U": U, "V": V,
        # the partner component may be stored with its dimensions in another order than the component itself
        "order_v": draw(st.one_of(st.none(), gen.permutations_of(labels))),
        "op": draw(st.sampled_from(["diff", "interp"])),
        "boundary": draw(st.sampled_from(["fill", "extend", "periodic"])),
        "fill": draw(gen.fill_values),
        "bsrc": draw(st.sampled_from(["grid", "call"])),
        "drop_facedim": draw(st.booleans()),
        "face_order": list(draw(st.permutations(list(range(Kx * Ky))))),
        "reverse_axes": draw(st.booleans()),
        "flag_style": draw(st.sampled_from(["python", "python", "numpy", "int"])),   # type of the reverse flags / face numbers in the links
        # use the Grid for a scalar (tracer) operation before the vector calls: earlier calls must not matter
        "scalar_first": draw(st.booleans()),
    }


def strategy(tier):
    return strategy_impl(tier)


def nonreversed(swap, rev):
    return not rev


def check(case, ctx):
    import xarray as xr
    from xgcm import Grid

    Kx, Ky, N = case["Kx"], case["Ky"], case["N"]
    nf = Kx * Ky
    px, py = case["px"], case["py"]
    orients = T.assign_orientations(Kx, Ky, px, py, case["prefs"], require=nonreversed)
    table = T.build_table(Kx, Ky, px, py, orients, require=nonreversed)
    assert table is not None
    U = np.array(case["U"], dtype=np.float64)
    V = np.array(case["V"], dtype=np.float64)
    NX, NY = Kx * N, Ky * N
    if px:
        U[..., NX] = U[..., 0]
    if py:
        V[..., NY, :] = V[..., 0, :]
    u, v = T.cut_vector(U, V, Kx, Ky, N, orients)
    has_links = any(l is not None for per in table.values() for sides in per.values() for l in sides)
    drop_face = (not has_links) and nf == 1 and case["drop_facedim"]

    coords = {}
    for a in "XY":
        coords[a.lower() + "c"] = (a.lower() + "c", np.arange(N) + 0.5)
        coords[a.lower() + "l"] = (a.lower() + "l", np.arange(N) * 1.0)
    for name, size in case["extra"]:
        coords[name] = (name, np.arange(size) * 1.0)
    if not drop_face:
        coords["face"] = ("face", np.arange(nf))
    ds = xr.Dataset(coords=coords)
    gc = {"X": {"center": "xc", "left": "xl"}, "Y": {"center": "yc", "left": "yl"}}
    kw = {"boundary": case["boundary"], "fill_value": case["fill"]} if case["bsrc"] == "grid" else {}
    fc = gen.table_to_xgcm(table_json(table), face_order=case.get("face_order"), reverse_axes=case.get("reverse_axes", False), flag_style=case.get("flag_style", "python")) if has_links else None
    grid = must_return("Grid construction", Grid, ds, coords=gc, face_connections=fc, autoparse_metadata=False, periodic=False, **kw)
    ckw = {"boundary": case["boundary"], "fill_value": case["fill"]} if case["bsrc"] == "call" else {}

    def dims_for(ydim, xdim, which="order"):
        base = ["face"] + [e[0] for e in case["extra"]] + [ydim, xdim]
        order = [{"Y": ydim, "X": xdim}.get(l, l) for l in (case.get(which) or case["order"])]
        if drop_face:
            base = base[1:]
            order = [d for d in order if d != "face"]
        return base, order

    ub, uo = dims_for("yc", "xl")
    vb, vo = dims_for("yl", "xc", "order_v")
    uda = xr.DataArray(u[0] if drop_face else u, dims=ub).transpose(*uo)
    vda = xr.DataArray(v[0] if drop_face else v, dims=vb).transpose(*vo)
    cb, co = dims_for("yc", "xc")

    if case.get("scalar_first"):
        tracer = xr.DataArray(np.arange(float(np.prod(u.shape))).reshape(u.shape)[0] if drop_face else np.arange(float(np.prod(u.shape))).reshape(u.shape), dims=cb)
        must_return("scalar operation before the vector calls", grid.interp, tracer, "X", to="left", **ckw)
        must_return("scalar operation before the vector calls", grid.diff, tracer, "Y", to="left", **ckw)

    F = T.OPS[case["op"]]
    lead = U.shape[:-2]

    def right_edge(f, a, i, j):
        idx = [i, j]
        if idx[a] < N - 1:
            return T.edge_value(U, V, Kx, Ky, N, orients, f, a, i, j, 1), False
        link = table[f]["XY"[a]][1]
        if link is not None:
            return T.edge_value(U, V, Kx, Ky, N, orients, f, a, i, j, 1), True
        if case["boundary"] == "fill":
            return np.full(lead, case["fill"], dtype=np.float64), False
        if case["boundary"] == "extend":
            return T.edge_value(U, V, Kx, Ky, N, orients, f, a, i, j, 0), False
        idx[a] = 0  # periodic wrap inside the face
        return T.edge_value(U, V, Kx, Ky, N, orients, f, a, idx[0], idx[1], 0), False

    results = {}
    crossed = 0
    complete = np.ones((nf, N, N), dtype=bool)
    fop = getattr(grid, case["op"])
    for a, (comp, other) in enumerate([(("X", uda), ("Y", vda)), (("Y", vda), ("X", uda))]):
        exp = np.zeros((nf,) + lead + (N, N))
        for f in range(nf):
            for j in range(N):
                for i in range(N):
                    r, via_link = right_edge(f, a, i, j)
                    crossed += via_link
                    if [i, j][a] == N - 1 and table[f]["XY"[a]][1] is None:
                        complete[f, j, i] = False
                    exp[f, ..., j, i] = F(T.edge_value(U, V, Kx, Ky, N, orients, f, a, i, j, 0), r)
        if drop_face:
            exp = exp[0]
        got = must_return(f"Grid.{case['op']} (vector component {comp[0]})", fop, {comp[0]: comp[1]}, comp[0],
                          other_component={other[0]: other[1]}, **ckw)
        co = dims_for("yc", "xc", "order" if comp[0] == "X" else "order_v")[1]   # the result keeps the order of *its* input
        if list(got.dims) != co:
            raise Violation("result dims differ", component=comp[0], got=list(got.dims), expected=co)
        gv = np.asarray(got.transpose(*cb).values)
        if gv.shape != exp.shape or not np.array_equal(gv, exp):
            bad = np.argwhere(gv != exp) if gv.shape == exp.shape else [[-1]]
            i0 = tuple(int(x) for x in bad[0])
            raise Violation("vector component differs from the undivided edge field", component=comp[0], index=list(i0),
                            got=float(gv[i0]) if gv.shape == exp.shape else None, expected=float(exp[i0]) if gv.shape == exp.shape else None,
                            orients=orients, table=table_json(table))
        results[comp[0]] = gv
        if not has_links:
            # simple-grid clause: the vector form gives exactly the result of the component alone
            alone = must_return("vector form without other_component on a simple grid", fop, {comp[0]: comp[1]}, comp[0], **ckw)
            bare = must_return("bare array on a simple grid", fop, comp[1], comp[0], **ckw)
            for name, alt in (("vector form alone", alone), ("bare component", bare)):
                if list(alt.dims) != co or not np.array_equal(np.asarray(alt.transpose(*cb).values), gv):
                    raise Violation(f"simple grid: {name} differs from the vector form with other_component", component=comp[0])

    if not has_links:
        # the same clause for components on the other staggered positions (closed-domain edges: outer / inner), where the
        # shift needs no padding at all
        n2 = N + 1
        pds = xr.Dataset(coords={"pc": ("pc", np.arange(n2) + 0.5), "po": ("po", np.arange(n2 + 1) * 1.0), "pi": ("pi", np.arange(1, n2) * 1.0),
                                 "qc": ("qc", np.arange(2) + 0.5), "ql": ("ql", np.arange(2) * 1.0)})
        pgrid = must_return("Grid construction", Grid, pds, coords={"X": {"center": "pc", "outer": "po", "inner": "pi"}, "Y": {"center": "qc", "left": "ql"}},
                            autoparse_metadata=False, periodic=False, **kw)
        pfn = getattr(pgrid, case["op"])
        for frm, to_ in (("po", "center"), ("pc", "inner"), ("pi", "center"), ("pc", "outer")):
            comp_ = xr.DataArray(np.arange(float(2 * pds.sizes[frm])).reshape(2, -1) ** 2, dims=["qc", frm], name="uo")
            part_ = xr.DataArray(np.ones((2, n2)), dims=["ql", "pc"], name="vo")
            bare_ = must_return("bare component on a simple grid", pfn, comp_, "X", to=to_, **ckw)
            vecf_ = must_return(f"vector form on a simple grid ({frm} -> {to_})", pfn, {"X": comp_}, "X", to=to_, other_component={"Y": part_}, **ckw)
            if list(vecf_.dims) != list(bare_.dims) or not np.array_equal(np.asarray(vecf_.values), np.asarray(bare_.values)):
                raise Violation("simple grid: vector form differs from the component alone", frm=frm, to=to_)

    # the two-component convenience wrappers give the same pair of results
    wrapper = grid.diff_2d_vector if case["op"] == "diff" else grid.interp_2d_vector
    vec = {"X": uda, "Y": vda}
    both = must_return(f"Grid.{case['op']}_2d_vector", wrapper, vec, **ckw)
    if list(vec) != ["X", "Y"] or vec["X"] is not uda or vec["Y"] is not vda:
        raise Violation("the vector dictionary passed to the 2d_vector wrapper was modified")
    for comp in ("X", "Y"):
        bv = np.asarray(both[comp].transpose(*cb).values)
        if bv.shape != results[comp].shape or not np.array_equal(bv, results[comp]):
            raise Violation("2d_vector wrapper differs from the per-component vector form", component=comp)

    # the very same component objects updated in place (a time-stepping loop): results are a function of the values,
    # so they equal those of fresh copies holding the same values
    uda.values[...] = 3 - 2 * uda.values
    vda.values[...] = 3 - 2 * vda.values
    fu, fv = uda.copy(deep=True), vda.copy(deep=True)
    for (cn, c, on, o), (fc_, fo_) in zip((("X", uda, "Y", vda), ("Y", vda, "X", uda)), ((fu, fv), (fv, fu))):
        same = must_return("vector op on components updated in place", fop, {cn: c}, cn, other_component={on: o}, **ckw)
        fresh = must_return("vector op on fresh copies", fop, {cn: fc_}, cn, other_component={on: fo_}, **ckw)
        if not np.array_equal(np.asarray(same.values), np.asarray(fresh.values)):
            raise Violation("after the component objects were updated in place the result differs from that of fresh copies with the same values", component=cn)
        if np.ptp(results[cn]) > 0 and case["boundary"] != "fill" and not np.allclose(
                np.asarray(same.transpose(*cb).values), (-2 * results[cn] + (0 if case["op"] == "diff" else 3)), rtol=1e-9, atol=1e-9 * max(1.0, float(np.abs(results[cn]).max()))):
            raise Violation("result after an in-place update is not the affine image of the earlier result", component=cn)

    if case["op"] == "diff":
        div = results["X"] + results["Y"]
        gdiv = (U[..., :, 1:] - U[..., :, :-1]) + (V[..., 1:, :] - V[..., :-1, :])
        want = T.cut(gdiv, Kx, Ky, N, orients)
        cm = complete
        if drop_face:
            want, cm = want[0], complete[0]
        mask = np.broadcast_to(cm.reshape(cm.shape[:1] + (1,) * len(lead) + cm.shape[1:]) if not drop_face
                               else cm.reshape((1,) * len(lead) + cm.shape), div.shape)
        scale = max(1.0, float(np.abs(want).max(initial=0)))
        bad = mask & ~np.isclose(div, want, rtol=1e-9, atol=1e-9 * scale)
        if bad.any():
            i0 = tuple(int(x) for x in np.argwhere(bad)[0])
            raise Violation("discrete divergence differs from that of the undivided field", index=list(i0), got=float(div[i0]), expected=float(want[i0]))

    kinds = link_kinds(table)
    nonconst = bool(np.ptp(U) > 0 or np.ptp(V) > 0)
    classes = [f"faces:{nf}", f"op:{case['op']}", f"rule:{case['boundary']}"] + sorted("link:" + k for k in kinds)
    if not has_links:
        classes.append("simple-grid" + ("-nofacedim" if drop_face else ""))
    return {"nontrivial": bool(nonconst and (crossed > 0 or not has_links)), "classes": classes}
