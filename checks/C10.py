"""C10 - the metric applied is the one registered for the array's position and axes.

Oracle: a validity predicate (the set of acceptable metrics, built from the statement with
the reference interpolation of C01) for get_metric, and reference formulas for integrate /
average / derivative / metric_weighted operations."""
import itertools
import warnings

import numpy as np
from hypothesis import strategies as st

from vfw import build, gen
from vfw.core import Violation, must_return
from vfw.model import stencil as M

PROPERTY = "C10"
SIZES = {"quick": 6000, "thorough": 80000}
RULE = (
    "Hypothesis draws a grid of 1-3 axes with arbitrary position sets (2-4 cells), an array position per axis, a registry: for "
    "a drawn family of axis subsets 1-3 metric variables at pairwise different position tuples (each position equal to the "
    "array's or one of the two being center, so that 'interpolated to it' is a supported shift), positive non-uniform dyadic "
    "values distinct per variable; a requested axis set in a drawn order and spelling; data with optional NaN holes. Oracle: "
    "acceptable-metric set from the statement (exact set first: at-position variable else any interpolated one + warning; "
    "else products over registered partitions, largest block first), then integrate/average/derivative/metric_weighted "
    "formulas. Non-trivial = the requested set is not registered at the array's position (interpolation or a product is "
    "needed); distinct = canonical JSON."
)
ASSUMPTIONS = [
    "reference interpolation = C01's model with nearest-value extension; tolerance 1e-12 relative (products / means of dyadic values)",
    "where several answers are acceptable (several interpolable variables, several registered partitions of equal rank) any of them passes",
]


@st.composite
def strategy_impl(draw, tier):
    axes = draw(gen.layouts(max_axes=3, max_n=4, max_cells=80, allow_default_shifts=False))
    names = [a["name"] for a in axes]
    by = {a["name"]: a for a in axes}
    apos = {n: draw(st.sampled_from(by[n]["positions"])) for n in names}
    subsets = [list(s) for k in range(1, len(names) + 1) for s in itertools.combinations(names, k)]
    req_k = min(len(names), draw(st.sampled_from([1, 2, 2, 3, 3])))
    req = draw(st.permutations(names))[:req_k]
    registry = []
    counter = 0
    for s in subsets:
        if set(s) == set(req):
            keep = draw(st.sampled_from([True, False]))
        elif set(s) <= set(req):
            keep = draw(st.sampled_from([True, True, True, False]))
        else:
            keep = draw(st.sampled_from([True, False, False]))
        if not keep:
            continue
        def opts(a):
            return by[a]["positions"] if apos[a] == "center" else sorted({apos[a], "center"}, key=by[a]["positions"].index)

        k = draw(st.sampled_from([1, 2, 3, 3, 5]))
        entries = []
        seen = set()
        for _ in range(k):
            # a metric for the axes `s` may vary along further axes as well (e.g. dx(y, x) registered for ('X',))
            others = [a for a in names if a not in s and draw(st.sampled_from([False, False, True]))]
            # (the order in which a metric variable stores its dimensions is drawn too: a position is a set of dimensions)
            own = list(s)
            if others and draw(st.integers(0, 4)) == 0:
                # a metric need not lie along its own axes at all (dx(lat) on a lat-lon grid): it then sits "at the array's
                # position" along those axes whatever that position is
                own = []
            on = list(draw(st.permutations(own + others)))
            pos = [draw(st.sampled_from(opts(a))) for a in on]
            key = frozenset(zip(on, pos))
            if key in seen:
                continue
            seen.add(key)
            counter += 1
            shape = [gen.pos_len(by[a]["n"], p) for a, p in zip(on, pos)]
            vals = draw(gen.data_values(shape, elements=st.integers(1, 31).map(lambda q: q / 8.0)))
            entries.append({"name": f"m{counter}", "on": on, "pos": pos, "values": vals, "offset": 4.0 * counter})
        registry.append({"axes": s, "vars": entries})
    two_pos = [n for n in names if len(by[n]["positions"]) >= 2]
    if len(names) >= 2 and two_pos and draw(st.integers(0, 7)) == 0:
        # the lat-lon case on purpose: the metrics of two axes both vary along one and the same dimension only (dx(lat),
        # dy(lat)), nothing is registered for the pair, and the array sits at another position along that dimension
        b = draw(st.sampled_from(two_pos))
        a = draw(st.sampled_from([n for n in names if n != b]))
        pb = draw(st.sampled_from(by[b]["positions"]))
        apos[b] = draw(st.sampled_from([p for p in by[b]["positions"] if p != pb and (p == "center" or pb == "center")] or [pb]))
        L = gen.pos_len(by[b]["n"], pb)
        registry = []
        for k, ax_ in enumerate((a, b)):
            vals = draw(gen.data_values([L], elements=st.integers(1, 31).map(lambda q: q / 8.0)))
            registry.append({"axes": [ax_], "vars": [{"name": f"m{k + 1}", "on": [b], "pos": [pb], "values": vals, "offset": 4.0 * (k + 1)}]})
        req = draw(st.permutations([a, b]))
        req_k = 2
    elif len(names) == 3 and draw(st.integers(0, 3)) == 0:
        # rank against location on purpose: all three axes requested, nothing registered for the triple, the one-axis
        # metrics mostly at the array's position and the two-axis metrics mostly *not* - "largest block first" must win
        # over "everything at the position" (and a block registered at the position over an interpolated one)
        def opts3(a):
            return by[a]["positions"] if apos[a] == "center" else sorted({apos[a], "center"}, key=by[a]["positions"].index)

        registry = []
        counter = 0
        req = list(draw(st.permutations(names)))
        req_k = 3
        for s in [list(c) for k in (1, 2) for c in itertools.combinations(names, k)]:
            if draw(st.integers(0, 7 if len(s) == 1 else 2)) == 0:
                continue
            at_pos = draw(st.sampled_from([True, True, True, False] if len(s) == 1 else [False, False, True]))
            entries = []
            seen = set()
            for j in range(draw(st.sampled_from([1, 1, 2]))):
                on = list(draw(st.permutations(s)))
                pos = [apos[a] for a in on]
                movable = [i for i, a in enumerate(on) if len(opts3(a)) > 1]
                if movable and not (at_pos and j == 0):
                    for i in draw(st.sets(st.sampled_from(movable), min_size=1)):
                        pos[i] = draw(st.sampled_from([p for p in opts3(on[i]) if p != apos[on[i]]]))
                key = frozenset(zip(on, pos))
                if key in seen:
                    continue
                seen.add(key)
                counter += 1
                shape = [gen.pos_len(by[a]["n"], p) for a, p in zip(on, pos)]
                vals = draw(gen.data_values(shape, elements=st.integers(1, 31).map(lambda q: q / 8.0)))
                entries.append({"name": f"m{counter}", "on": on, "pos": pos, "values": vals, "offset": 4.0 * counter})
            registry.append({"axes": s, "vars": entries})
    extra = draw(st.sampled_from([[], [], [["t", 2]]]))
    dims = [gen.dim_name(n, apos[n]) for n in names] + [e[0] for e in extra]
    sizes = {gen.dim_name(n, apos[n]): gen.pos_len(by[n]["n"], apos[n]) for n in names}
    sizes.update({e[0]: e[1] for e in extra})
    order = draw(gen.permutations_of(dims))
    values = draw(gen.data_values([sizes[d] for d in order], elements=st.integers(-6, 6).map(float)))
    nan_holes = draw(st.lists(st.integers(0, 10 ** 6), max_size=2))
    return {
        "axes": axes, "apos": apos, "registry": registry, "req": list(req),
        "req_spelling": draw(st.sampled_from(["tuple", "list"] + (["str"] if req_k == 1 else []))),
        "dims": order, "values": values, "nan_holes": nan_holes,
        "boundary": draw(st.sampled_from(M.RULES)), "op": draw(st.sampled_from(["diff", "interp", "min", "max", "cumsum"])),
        # a second model run in the same interpreter: same names, other metric values, used first
        "decoy_first": draw(st.booleans()),
        # a registry built in stages: these variables are registered with set_metrics *after* a first round of lookups on the
        # same Grid (the second round must answer from the registry as it then is)
        "late": sorted(e["name"] for r in registry for e in r["vars"] if draw(st.integers(0, 3)) == 0) if draw(st.booleans()) else [],
        # masks and counters are data too: the metric is a property of the grid, whatever the type of the array it is asked for
        "data_dtype": draw(st.sampled_from(["float64", "float64", "float64", "float32", "int32", "int16", "bool"])),
    }


@st.composite
def weighted_multi(draw, tier):
    """metric_weighted stencil operations over several axes (C01's generator + 1-D metrics at every position)."""
    from checks import C01

    sub = draw(C01.strategy_impl("quick"))
    metrics = {}
    for a in sub["axes"]:
        for p in a["positions"]:
            L = gen.pos_len(a["n"], p)
            metrics[gen.dim_name(a["name"], p)] = draw(st.lists(st.integers(1, 24).map(lambda k: k / 4.0), min_size=L, max_size=L))
    spelling = draw(st.sampled_from(["dict", "dict", "tuple-all", "dict-of-str"]))
    return {"kind": "weighted-multi", "sub": sub, "metrics": metrics, "mw_spelling": spelling}


def strategy(tier):
    return st.one_of(strategy_impl(tier), strategy_impl(tier), strategy_impl(tier), weighted_multi(tier))


def check_weighted_multi(case, ctx):
    import xarray as xr

    from checks import C01

    sub = case["sub"]
    axes = sub["axes"]
    names = [a["name"] for a in axes]
    by_name = {a["name"]: a for a in axes}
    shape = np.shape(sub["values"])
    ds = build.make_dataset(axes, [(d, s) for d, s in zip(sub["dims"], shape) if d.startswith("e")])
    for d, vals in case["metrics"].items():
        ds["m_" + d] = xr.DataArray(np.asarray(vals, dtype=np.float64), dims=[d])
    metrics_arg = {(a["name"],): ["m_" + gen.dim_name(a["name"], p) for p in a["positions"]] for a in axes}
    grid = must_return("Grid construction", build.make_grid, ds, axes, metrics=metrics_arg, **build.grid_kwargs(sub["grid"]))
    g_rules, g_fills = M.grid_level_rule(names, sub["grid"]["periodic"], sub["grid"]["boundary"], sub["grid"]["fill_value"])
    rules, fills = M.rule_in_force(names, g_rules, g_fills, sub["call_boundary"], sub["call_fill"])
    targets = {n: (sub["to"][n] if sub["to"] is not None else M.default_target(by_name[n]["positions"], sub["data_pos"][n], by_name[n]["default_shifts"]))
               for n in sub["op_axes"]}
    a = np.asarray(sub["values"], dtype=np.float64)
    dims = list(sub["dims"])

    def bc(vec, k, nd):
        shp = [1] * nd
        shp[k] = len(vec)
        return np.asarray(vec, dtype=np.float64).reshape(shp)

    for n in sub["op_axes"]:
        frm, to = sub["data_pos"][n], targets[n]
        k = dims.index(gen.dim_name(n, frm))
        a = a * bc(case["metrics"][dims[k]], k, a.ndim)
        a = M.stencil(a, k, by_name[n]["n"], frm, to, sub["op"], rules[n], fills[n])
        dims[k] = gen.dim_name(n, to)
        a = a / bc(case["metrics"][dims[k]], k, a.ndim)
    da = build.data_array(sub["values"], sub["dims"], name="phi")
    kw = C01.call_kwargs(sub, sub["to"])
    if case["mw_spelling"] == "dict-of-str":
        mw = {n: n for n in sub["op_axes"]}   # `metric_weighted : str or tuple of str or dict`
    elif case["mw_spelling"] == "dict":
        mw = {n: (n,) for n in sub["op_axes"]}
    else:
        # one spelling for every axis is only the same request when a single axis is operated
        mw = {n: (n,) for n in sub["op_axes"]} if len(sub["op_axes"]) > 1 else (sub["op_axes"][0],)
    got = must_return(f"Grid.{sub['op']}(metric_weighted)", getattr(grid, sub["op"]), da, C01.spell_axis(sub["op_axes"], sub["axis_spelling"]),
                      metric_weighted=mw, **kw)
    if list(got.dims) != dims:
        raise Violation("metric_weighted operation: dims differ", got=list(got.dims), expected=dims)
    gv = np.asarray(got.values)
    scale = max(1.0, float(np.abs(a).max(initial=0)))
    if gv.shape != a.shape or not np.allclose(gv, a, rtol=1e-12, atol=1e-12 * scale):
        raise Violation("metric_weighted operation over several axes is not op(data*metric)/metric(result position) axis by axis",
                        op=sub["op"], axes=sub["op_axes"], targets=targets)
    return {"nontrivial": len(sub["op_axes"]) >= 1, "classes": ["kind:weighted-multi", f"op:{sub['op']}", f"naxes:{len(sub['op_axes'])}"]}


def same_values(a, b):
    av, bv = np.asarray(a.values), np.asarray(b.values)
    return av.shape == bv.shape and bool(np.allclose(av, bv, rtol=1e-12, atol=1e-12))


def metric_array(entry):
    return np.asarray(entry["values"], dtype=np.float64) + entry["offset"]


def on_axes(entry, block):
    return entry.get("on") or list(block)


def interp_to(entry, block, target_pos, by):
    """Reference: metric interpolated axis by axis (along *every* axis on which it is not at the target position, be
    it a requested axis or not) with nearest-value extension."""
    a = metric_array(entry)
    moved = False
    for k, (ax, p) in enumerate(zip(on_axes(entry, block), entry["pos"])):
        to = target_pos[ax]
        if p != to:
            a = M.stencil(a, k, by[ax]["n"], p, to, "interp", "extend", 0.0)
            moved = True
    return a, moved


def acceptable_for_block(block_entry, target_pos, by):
    """-> (list of (array, dims), needs_interp)"""
    block = block_entry["axes"]
    exact = [e for e in block_entry["vars"] if all(p == target_pos[a] for a, p in zip(on_axes(e, block), e["pos"]))]

    def dims_of(e):
        return [gen.dim_name(a, target_pos[a]) for a in on_axes(e, block)]

    if exact:
        return [(metric_array(e), dims_of(e)) for e in exact], False
    return [(interp_to(e, block, target_pos, by)[0], dims_of(e)) for e in block_entry["vars"]], True


def multiply(factors):
    """product of (array, dims) factors -> (array, dims) by outer broadcasting."""
    import xarray as xr

    out = None
    for arr, dims in factors:
        da = xr.DataArray(arr, dims=dims)
        out = da if out is None else out * da
    return np.asarray(out.values), list(out.dims)


def acceptable_metrics(registry, req, target_pos, by):
    reg = {frozenset(r["axes"]): r for r in registry}
    S = frozenset(req)
    if S in reg:
        opts, interp = acceptable_for_block(reg[S], target_pos, by)
        return opts, interp, "exact-set"
    parts = []
    axl = list(req)
    if len(axl) == 2:
        ranks = [[[frozenset([axl[0]]), frozenset([axl[1]])]]]
    elif len(axl) == 3:
        two_one = [[frozenset(c), S - frozenset(c)] for c in itertools.combinations(axl, 2)]
        ranks = [two_one, [[frozenset([a]) for a in axl]]]
    else:
        ranks = []
    for rank in ranks:
        avail = [p for p in rank if all(b in reg for b in p)]
        if avail:
            parts = avail
            break
    out = []
    any_interp = False
    for p in parts:
        per_block = []
        for b in p:
            opts, interp = acceptable_for_block(reg[b], target_pos, by)
            any_interp = any_interp or interp
            per_block.append(opts)
        for combo in itertools.product(*per_block):
            out.append(multiply(combo))
    return out, any_interp, ("product" if parts else "none")


def matches(got, cand):
    arr, dims = cand
    if set(got.dims) != set(dims):
        return False
    gv = np.asarray(got.transpose(*dims).values)
    return gv.shape == arr.shape and np.allclose(gv, arr, rtol=1e-12, atol=0)


def check(case, ctx):
    import xarray as xr

    if case.get("kind") == "weighted-multi":
        return check_weighted_multi(case, ctx)
    axes = case["axes"]
    names = [a["name"] for a in axes]
    by = {a["name"]: a for a in axes}
    apos = case["apos"]
    ds = build.make_dataset(axes, [("t", 2)])
    metrics_arg = {}
    late = set(case.get("late") or [])
    late_calls = []
    for r in case["registry"]:
        for e in r["vars"]:
            ds[e["name"]] = xr.DataArray(metric_array(e), dims=[gen.dim_name(a, p) for a, p in zip(on_axes(e, r["axes"]), e["pos"])])
        early = [e["name"] for e in r["vars"] if e["name"] not in late]
        if early:
            metrics_arg[tuple(r["axes"])] = early
        if len(early) < len(r["vars"]):
            late_calls.append((tuple(r["axes"]), [e["name"] for e in r["vars"] if e["name"] in late]))
    grid = must_return("Grid construction", build.make_grid, ds, axes, metrics=metrics_arg, boundary=case["boundary"])
    vals = np.asarray(case["values"], dtype=np.float64).copy()
    if case.get("data_dtype") == "bool":
        vals = (vals > 0).astype(np.float64)
    da_full = xr.DataArray(vals.astype(case.get("data_dtype", "float64")), dims=case["dims"], name="phi")
    req = list(case["req"])
    if case.get("decoy_first"):
        ds2 = build.make_dataset(axes, [("t", 2)])
        for r in case["registry"]:
            for e in r["vars"]:
                ds2[e["name"]] = 3.0 * ds[e["name"]] + 1.0
        try:
            g2 = build.make_grid(ds2, axes, metrics=dict(metrics_arg), boundary="extend")
            for call in (lambda: g2.get_metric(da_full, list(req)), lambda: g2.integrate(da_full, list(req)),
                         lambda: g2.derivative(da_full, req[0]), lambda: g2.interp_like(ds2[case["registry"][0]["vars"][0]["name"]], da_full)):
                try:
                    with warnings.catch_warnings():
                        warnings.simplefilter("ignore")
                        call()
                except Exception:  # noqa: BLE001 - the other run is only there to leave traces, if any
                    pass
        except Exception:  # noqa: BLE001
            pass
    spelled = req[0] if case["req_spelling"] == "str" else (tuple(req) if case["req_spelling"] == "tuple" else list(req))

    if late_calls:
        # first round, on the registry as constructed: same validity predicate, then the remaining variables are registered
        early_reg = [dict(r, vars=[e for e in r["vars"] if e["name"] not in late]) for r in case["registry"]]
        early_reg = [r for r in early_reg if r["vars"]]
        acc0 = acceptable_metrics(early_reg, req, apos, by)[0]
        with warnings.catch_warnings():
            warnings.simplefilter("ignore")
            try:
                got0 = grid.get_metric(da_full, spelled)
            except Exception:  # noqa: BLE001
                got0 = None
            for call in (lambda: grid.integrate(da_full, list(req)), lambda: grid.average(da_full, list(req))):
                try:
                    call()
                except Exception:  # noqa: BLE001 - only there to leave traces, if any
                    pass
        if acc0 and got0 is None:
            raise Violation("get_metric raised although an acceptable metric exists (registry before the late registrations)", req=req, apos=apos)
        if got0 is not None and (not acc0 or not any(matches(got0, c) for c in acc0)):
            raise Violation("metric returned is not an acceptable one (registry before the late registrations)", req=req, apos=apos,
                            late=sorted(late), registry=summary(case))
        for key, names_ in late_calls:
            must_return("Grid.set_metrics", grid.set_metrics, key, names_)
    acc, needs_interp, kind = acceptable_metrics(case["registry"], req, apos, by)
    with warnings.catch_warnings(record=True) as wlist:
        warnings.simplefilter("always")
        try:
            got = grid.get_metric(da_full, spelled)
            raised = None
        except Exception as e:  # noqa: BLE001
            got, raised = None, e
    user_warn = [w for w in wlist if "interpolated" in str(w.message)]
    classes = [f"kind:{kind}", f"nreq:{len(req)}", f"naxes:{len(names)}", f"spell:{case['req_spelling']}"] + (["registry-built-in-stages"] if late_calls else [])
    if not acc:
        if got is not None:
            raise Violation("get_metric returned a metric although nothing acceptable is registered", req=req, registry=summary(case))
        return {"nontrivial": False, "classes": classes + ["no-metric"]}
    if got is None:
        raise Violation("get_metric raised although an acceptable metric exists", req=req, kind=kind, exception=type(raised).__name__,
                        message=str(raised)[:200], registry=summary(case), apos=apos)
    if not set(got.dims) <= set(da_full.dims):
        raise Violation("metric does not broadcast against the array", metric_dims=list(got.dims), array_dims=list(da_full.dims), req=req,
                        registry=summary(case), apos=apos)
    if not any(matches(got, c) for c in acc):
        raise Violation("metric returned is not an acceptable one (registered for exactly the set at the array's position, else "
                        "interpolated, else product of a registered partition with each factor at the position or interpolated)",
                        req=req, kind=kind, registry=summary(case), apos=apos, got=np.asarray(got.values).tolist(), n_acceptable=len(acc))
    if needs_interp and kind == "exact-set" and not user_warn:
        raise Violation("metric was interpolated without a warning", req=req, registry=summary(case), apos=apos)
    if needs_interp:
        classes.append("interpolated")
    # the public interp_like moves a registered variable to the array's position (nearest-value extension requested)
    reg0 = {frozenset(r["axes"]): r for r in case["registry"]}
    if frozenset(req) in reg0:
        e0 = reg0[frozenset(req)]["vars"][0]
        want_arr, moved = interp_to(e0, reg0[frozenset(req)]["axes"], apos, by)
        il = must_return("Grid.interp_like", grid.interp_like, ds[e0["name"]], da_full, "extend", None)
        want_dims = [gen.dim_name(a, apos[a]) for a in on_axes(e0, reg0[frozenset(req)]["axes"])]
        if set(il.dims) != set(want_dims) or np.shape(il.transpose(*want_dims).values) != np.shape(want_arr) or not np.allclose(
                np.asarray(il.transpose(*want_dims).values), want_arr, rtol=1e-12, atol=0):
            raise Violation("interp_like does not move the array to the position of `like` (with the requested extension)", variable=e0["name"],
                            got_dims=list(il.dims), expected_dims=want_dims)
        classes.append("interp_like")

    # ---- derived operations, using the metric actually returned (already shown acceptable)
    m = got
    holes = vals.copy()
    for h in case["nan_holes"]:
        holes.flat[h % holes.size] = np.nan
    da = xr.DataArray(holes, dims=case["dims"], name="phi")
    sum_dims = [gen.dim_name(a, apos[a]) for a in req]
    for order in ([req, list(reversed(req))] if len(req) > 1 else [req]):
        integ = must_return("Grid.integrate", grid.integrate, da_full, list(order))
        want = (da_full * m).sum(sum_dims)
        close(integ, want, "integrate differs from sum(data * metric)")
    avg = must_return("Grid.average", grid.average, da, list(req))
    valid = da.notnull()
    num = (da.fillna(0.0) * m).sum(sum_dims)
    den = (m * valid).sum(sum_dims)
    close(avg, num / den, "average differs from sum(data*metric)/sum(metric over valid data)")
    const = xr.where(valid, 3.5, np.nan)
    avgc = must_return("Grid.average(constant)", grid.average, const, list(req))
    cv = np.asarray(avgc.values)
    if not np.all(np.isnan(cv) | np.isclose(cv, 3.5, rtol=1e-12)):
        raise Violation("a constant field does not average to the constant", got=cv.tolist())

    # single-axis derivative and metric_weighted operation along the first requested axis
    # (numpy defines no difference of booleans: a mask enters these as 0/1 integers)
    da_num = da_full.astype("int32") if da_full.dtype == bool else da_full
    ax = req[0]
    frm = apos[ax]
    tos = [p for p in by[ax]["positions"] if p != frm] if frm == "center" else ["center"]
    reg1 = {frozenset(r["axes"]): r for r in case["registry"]}
    if tos and frozenset([ax]) in reg1:
        to = tos[0]
        tpos = dict(apos, **{ax: to})
        block = reg1[frozenset([ax])]
        feasible = all(p == to or p == "center" or to == "center" for e in block["vars"]
                       for a2, p in zip(on_axes(e, block["axes"]), e["pos"]) if a2 == ax)
        acc_out = acceptable_metrics(case["registry"], [ax], tpos, by)[0] if feasible else []
        acc_in = acceptable_metrics(case["registry"], [ax], apos, by)[0] if feasible else []
        if acc_out and feasible:
            kw = dict(to=to, boundary=case["boundary"], fill_value=0.0)
            d = must_return("Grid.diff", grid.diff, da_num, ax, **kw)
            deriv = must_return("Grid.derivative", grid.derivative, da_num, ax, **kw)
            ok = False
            for arr, dims in acc_out:
                w = d / xr.DataArray(arr, dims=dims)
                if w.dims == deriv.dims or set(w.dims) == set(deriv.dims):
                    if same_values(w.transpose(*deriv.dims), deriv):
                        ok = True
            if not ok:
                raise Violation("derivative is not diff divided by the metric at the result's position", axis=ax, to=to, registry=summary(case), apos=apos)
            classes.append("derivative")
            op = case["op"]
            fn = getattr(grid, op)
            gw = must_return(f"Grid.{op}(metric_weighted)", fn, da_num, ax, metric_weighted=(ax,), **kw)
            ok = False
            for ain, din in acc_in:
                pre = da_num * xr.DataArray(ain, dims=din)
                mid = must_return(f"Grid.{op}", fn, pre.transpose(*da_num.dims), ax, **kw)
                for aout, dout in acc_out:
                    w = mid / xr.DataArray(aout, dims=dout)
                    if set(w.dims) == set(gw.dims) and same_values(w.transpose(*gw.dims), gw):
                        ok = True
            if not ok:
                raise Violation(f"{op}(metric_weighted) is not op(data*metric)/metric(result position)", axis=ax, to=to, registry=summary(case), apos=apos)
            classes.append(f"weighted:{op}")
    nontrivial = kind == "product" or needs_interp
    return {"nontrivial": bool(nontrivial), "classes": classes}


def close(got, want, what):
    if set(got.dims) != set(want.dims):
        raise Violation(what + " (dims)", got=list(got.dims), expected=list(want.dims))
    g = np.asarray(got.transpose(*want.dims).values)
    w = np.asarray(want.values)
    if g.shape != w.shape or not np.allclose(g, w, rtol=1e-12, atol=1e-12, equal_nan=True):
        raise Violation(what, got=g.tolist(), expected=w.tolist())


def summary(case):
    return [{"axes": r["axes"], "vars": [[e["name"], on_axes(e, r["axes"]), e["pos"]] for e in r["vars"]]} for r in case["registry"]]
