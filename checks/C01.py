"""C01 - staggered stencil operators are exact on simple grids.

Oracle: the per-point reference model of vfw.model.stencil (geometry of positions, never
pad widths), applied axis after axis in the given order; compared bitwise."""
import numpy as np
from hypothesis import strategies as st

from vfw import build, gen
from vfw.core import Violation, must_return
from vfw.model import stencil as M

PROPERTY = "C01"
SIZES = {"quick": 6400, "thorough": 160000}
RULE = (
    "Hypothesis draws an axis layout (1-3 axes, any position subset containing center, 2-6 cells; "
    "thorough 2-9), a float64 array on drawn positions with 0-2 extra dims in a drawn dim order, an "
    "operator (diff/interp/min/max), 1-3 distinct operated axes in a drawn order and spelling, `to` "
    "explicit or omitted, and the boundary rule / fill value at grid level and/or per call. Oracle: "
    "independent per-point neighbour model. Non-trivial = some operated shift takes a value from "
    "beyond an array end AND the data are not constant along that axis; distinct = canonical JSON of "
    "the whole case."
)
ASSUMPTIONS = [
    "float64 data with |value| <= 1e6 (no overflow; the property speaks of real values)",
    "NumPy's take/where/arithmetics are the trusted base of the reference model",
]
OPS = ["diff", "interp", "min", "max"]


@st.composite
def strategy_impl(draw, tier):
    max_n = 6 if tier == "quick" else 9
    axes = draw(gen.layouts(max_n=max_n, max_cells=300 if tier == "quick" else 700, big_n=True))
    if all(len(a["positions"]) == 1 for a in axes):
        # construction, not rejection: give one axis a drawn face position
        k = draw(st.integers(0, len(axes) - 1))
        axes[k]["positions"].append(draw(st.sampled_from(gen.OTHER_POS)))
    names = [a["name"] for a in axes]
    shiftable = [a["name"] for a in axes if len(a["positions"]) > 1]
    op_axes = draw(st.lists(st.sampled_from(shiftable), min_size=1, max_size=len(shiftable), unique=True))
    others = [n for n in names if n not in op_axes]
    carried = [n for n in others if draw(st.booleans())]
    by_name = {a["name"]: a for a in axes}
    data_pos = {}
    for n in op_axes + carried:
        data_pos[n] = draw(st.sampled_from(by_name[n]["positions"]))
    # targets
    explicit = draw(st.booleans())
    to = None
    if explicit:
        to = {}
        for n in op_axes:
            frm = data_pos[n]
            if frm == "center":
                to[n] = draw(st.sampled_from(by_name[n]["positions"][1:]))
            else:
                to[n] = "center"
    to_spelling = "omit"
    if explicit:
        same = len(set(to.values())) == 1
        to_spelling = draw(st.sampled_from(["scalar", "dict"] if same else ["dict"]))
    extra = draw(gen.extra_dims())
    dims = [gen.dim_name(n, data_pos[n]) for n in op_axes + carried] + [e[0] for e in extra]
    sizes = {gen.dim_name(n, data_pos[n]): gen.pos_len(by_name[n]["n"], data_pos[n]) for n in op_axes + carried}
    sizes.update({e[0]: e[1] for e in extra})
    order = draw(gen.permutations_of(dims))
    shape = [sizes[d] for d in order]
    # float64 mostly; float32 (the usual model-output type) and integers are real values as well.  For those the data and
    # the fill values are drawn from numbers both types represent exactly, so "exactly" keeps its meaning.
    dtype = draw(st.sampled_from(["float64", "float64", "float64", "float32", "int64"]))
    if dtype == "float64":
        values = draw(gen.data_values(shape))
    elif dtype == "float32":
        values = draw(gen.data_values(shape, elements=st.integers(-512, 512).map(lambda k: k / 8.0)))
    else:
        values = draw(gen.data_values(shape, elements=st.integers(-99, 99).map(float)))
    settings = draw(gen.grid_settings(names, exotic=False))
    call_boundary = draw(gen.boundary_spelling(names))
    call_fill = draw(gen.fill_spelling(names))
    axis_spelling = draw(st.sampled_from(["str", "list", "tuple"] if len(op_axes) == 1 else ["list", "tuple"]))
    return {
        "axes": axes,
        "grid": settings,
        "op": draw(st.sampled_from(OPS)),
        "op_axes": op_axes,
        "axis_spelling": axis_spelling,
        "data_pos": data_pos,
        "dims": order,
        "values": values,
        "to": to,
        "to_spelling": to_spelling,
        # a `to` mapping may also name axes the call does not operate on (they must be ignored)
        "to_extra": {n: draw(st.sampled_from(by_name[n]["positions"])) for n in names if n not in op_axes and draw(st.booleans())},
        "call_boundary": call_boundary,
        "call_fill": call_fill,
        "reverse_mappings": draw(st.booleans()),  # list the entries of every mapping argument in the opposite order
        "explicit_none": draw(st.booleans()),     # pass boundary=None / fill_value=None / to=None explicitly instead of omitting them
        "keep_coords": draw(st.sampled_from([None, True, False])),
        "data_name": draw(st.sampled_from(["phi", None])),
        "dtype": dtype,
        "layout": draw(st.sampled_from(["C", "C", "F", "view", "neg"])),   # memory layout of the input
        # the Python types of the arguments: plain, numpy scalars / strings / arrays, OrderedDict + tuples, 0-d arrays
        "arg_types": draw(st.sampled_from(["plain", "plain", "plain", "numpy", "odict", "0d"])),
        "carry_coords": draw(st.booleans()),                        # input carrying the dataset's coordinates or none
        "decoy_first": draw(st.booleans()),                         # another Grid with other settings is built and used first
    }


def strategy(tier):
    return strategy_impl(tier)


def table_cases():
    """The finite table behind the property, in full: 4 operators x 8 shifts x 3 rules x where the rule and the fill value come
    from (grid default / per call / both, the call winning) - on one small fixed array with distinct values, a non-zero
    grid-level fill value and another per-call one.  Random search reaches each cell of this product only now and then."""
    vals = [[3.0, -1.5, 4.25, -1.0, 5.5], [-2.0, 7.0, 1.0, -8.5, 2.0]]
    out = []
    for op in OPS:
        for frm, to in M.VALID_SHIFTS:
            n = 5 - M.LEN_DELTA[frm]   # the centre-cell count that makes the input 5 long
            positions = ["center"] + [p for p in gen.OTHER_POS if p in (frm, to)]
            axis = {"name": "X", "n": n, "positions": positions, "default_shifts": None}
            for rule in M.RULES:
                for label, grid, cb, cf in gen.rule_sources(rule):
                    out.append({
                        "axes": [axis], "grid": grid, "op": op, "op_axes": ["X"], "axis_spelling": "str", "data_pos": {"X": frm},
                        "dims": ["e0", gen.dim_name("X", frm)], "values": vals, "to": {"X": to}, "to_spelling": "scalar", "to_extra": {},
                        "call_boundary": cb, "call_fill": cf, "reverse_mappings": False, "explicit_none": False, "keep_coords": None,
                        "data_name": "phi", "dtype": "float64", "layout": "C", "carry_coords": False, "decoy_first": False, "arg_types": "plain",
                    })
    return out


def exhaustive_part(tier, seed):
    from vfw.runner import enumerate_cases

    cases = table_cases()
    return {"result": enumerate_cases(PROPERTY, cases), "extra": {"enumerated_table_cells": len(cases)}}


def spell_axis(op_axes, spelling):
    if spelling == "str":
        return op_axes[0]
    if spelling == "tuple":
        return tuple(op_axes)
    return list(op_axes)


def call_kwargs(case, to):
    kw = {}
    rev = bool(case.get("reverse_mappings"))
    if to is not None:
        if case["to_spelling"] == "scalar":
            kw["to"] = next(iter(to.values()))
        else:
            kw["to"] = build.copy_arg(dict(case.get("to_extra") or {}, **to), rev)
    if case["call_boundary"] is not None:
        kw["boundary"] = build.copy_arg(case["call_boundary"], rev)
    if case["call_fill"] is not None:
        kw["fill_value"] = build.copy_arg(case["call_fill"], rev)
    if case.get("explicit_none"):
        for k in ("to", "boundary", "fill_value"):
            kw.setdefault(k, None)
    if case.get("keep_coords") is not None:
        kw["keep_coords"] = case["keep_coords"]
    if case.get("arg_types", "plain") != "plain":
        kw = {k: build.retype(v, case["arg_types"]) for k, v in kw.items()}
    return kw


def expected(case, by_name, rules, fills, targets):
    a = np.asarray(case["values"], dtype=np.float64).astype(case.get("dtype", "float64"))
    dims = list(case["dims"])
    nontrivial = False
    for n in case["op_axes"]:
        ax = by_name[n]
        frm = case["data_pos"][n]
        to = targets[n]
        d = gen.dim_name(n, frm)
        k = dims.index(d)
        if M.needs_boundary(ax["n"], frm, to):
            if a.shape[k] > 1 and not np.all(np.take(a, [0], axis=k) == a):
                nontrivial = True
        a = M.stencil(a, k, ax["n"], frm, to, case["op"], rules[n], fills[n])
        dims[k] = gen.dim_name(n, to)
    return a, dims, nontrivial


def check(case, ctx):
    axes = case["axes"]
    by_name = {a["name"]: a for a in axes}
    names = [a["name"] for a in axes]
    ds = build.make_dataset(axes, [(d, s) for d, s in zip(case["dims"], np.shape(case["values"])) if d.startswith("e")])
    grid = must_return("Grid construction", build.make_grid, ds, axes, **build.grid_kwargs(case["grid"]))
    g_rules, g_fills = M.grid_level_rule(names, case["grid"]["periodic"], case["grid"]["boundary"], case["grid"]["fill_value"])
    rules, fills = M.rule_in_force(names, g_rules, g_fills, case["call_boundary"], case["call_fill"])
    targets = {}
    for n in case["op_axes"]:
        if case["to"] is not None:
            targets[n] = case["to"][n]
        else:
            targets[n] = M.default_target(by_name[n]["positions"], case["data_pos"][n], by_name[n]["default_shifts"])
    exp, exp_dims, nontrivial = expected(case, by_name, rules, fills, targets)

    da = build.data_array(case["values"], case["dims"], name=case.get("data_name", "phi"), layout=case.get("layout", "C"))
    if case.get("dtype", "float64") != "float64":
        da = da.astype(case["dtype"])
    if case.get("carry_coords"):
        da = da.assign_coords({d: ds[d] for d in da.dims if d in ds.coords})
    if case.get("decoy_first"):
        # nothing may survive on module level from a Grid with other settings (same dataset, other rules) used before
        decoy = build.make_grid(ds, axes, periodic=not bool(case["grid"]["periodic"]) if isinstance(case["grid"]["periodic"], bool) else True,
                                boundary="extend", fill_value=-77.0)
        getattr(decoy, case["op"])(da, list(case["op_axes"]), **call_kwargs(dict(case, to_spelling="dict", call_boundary=None, call_fill=None), targets))
    fn = getattr(grid, case["op"])
    kw = call_kwargs(case, case["to"])
    got = must_return(f"Grid.{case['op']}", fn, da, build.retype(spell_axis(case["op_axes"], case["axis_spelling"]), case.get("arg_types")), **kw)
    compare(got, exp, exp_dims, "result vs reference model", case)

    # the pre-defined 1-D grid ufunc of xgcm.gridops called directly (rule and fill value spelled out per call)
    if len(case["op_axes"]) == 1:
        from xgcm import gridops

        n1 = case["op_axes"][0]
        uf = getattr(gridops, f"{case['op']}_{case['data_pos'][n1]}_to_{targets[n1]}", None)
        if uf is not None:
            direct = must_return(f"gridops.{case['op']}_{case['data_pos'][n1]}_to_{targets[n1]}", uf, grid, da, axis=[(n1,)],
                                 boundary={n1: rules[n1]}, fill_value={n1: fills[n1]})
            if set(direct.dims) != set(exp_dims):
                raise Violation("pre-defined grid ufunc called directly: dims differ", got=list(direct.dims), expected=list(exp_dims))
            compare(direct.transpose(*exp_dims), exp, exp_dims, "pre-defined grid ufunc called directly vs reference model", case)

    # omitting `to` == naming the documented default
    if case["to"] is None:
        c2 = dict(case, to_spelling="dict")
        got2 = must_return("explicit default `to`", fn, da, list(case["op_axes"]), **call_kwargs(c2, targets))
        compare(got2, exp, exp_dims, "`to` omitted vs explicit default", case)
    # several axes == one after another in the given order (public API only)
    if len(case["op_axes"]) > 1:
        cur = da
        for n in case["op_axes"]:
            c2 = dict(case, to_spelling="dict")
            cur = must_return("sequential application", fn, cur, n, **call_kwargs(c2, {n: targets[n]}))
        compare(cur, exp, exp_dims, "multi-axis call vs sequential calls", case)

    # history independence: the same call again, after the other calls on this Grid (incl. one with another boundary
    # treatment), gives the same result
    other = {"boundary": "extend" if any(rules[n] != "extend" for n in case["op_axes"]) else "fill", "fill_value": 41.5}
    must_return("call with another boundary treatment", fn, da, list(case["op_axes"]), **dict(call_kwargs(dict(case, to_spelling="dict"), targets), **other))
    again = must_return(f"Grid.{case['op']} (repeated)", fn, da, spell_axis(case["op_axes"], case["axis_spelling"]), **kw)
    compare(again, exp, exp_dims, "the same call repeated after other calls on the same Grid", case)

    # the very same DataArray object, updated in place (a time-stepping loop): the result follows the new values
    if case.get("dtype", "float64") != "float32":
        newvals = (3 - 2 * np.asarray(case["values"], dtype=np.float64)).tolist()
        da.values[...] = np.asarray(newvals).astype(da.dtype)
        exp_u, exp_dims_u, _ = expected(dict(case, values=newvals), by_name, rules, fills, targets)
        upd = must_return(f"Grid.{case['op']} (input updated in place)", fn, da, spell_axis(case["op_axes"], case["axis_spelling"]), **kw)
        compare(upd, exp_u, exp_dims_u, "the same call after the input object was updated in place", case)

    shifts = [f"{case['data_pos'][n]}>{targets[n]}" for n in case["op_axes"]]
    classes = [f"op:{case['op']}", f"naxes:{len(case['op_axes'])}"] + [f"shift:{s}" for s in shifts]
    classes += [f"rule:{rules[n]}" for n in case["op_axes"]]
    classes.append("to:" + case["to_spelling"])
    classes.append("callb:" + spelling_kind(case["call_boundary"], names))
    classes.append("gridb:" + spelling_kind(case["grid"]["boundary"], names))
    if list(case["dims"]) != sorted(case["dims"]):
        classes.append("permuted-dims")
    return {"nontrivial": nontrivial, "classes": classes}


def spelling_kind(v, names):
    if v is None:
        return "none"
    if isinstance(v, dict):
        return "total" if set(v) >= set(names) else "partial"
    return "scalar"


def compare(got, exp, exp_dims, what, case):
    if list(got.dims) != list(exp_dims):
        raise Violation(f"{what}: dims differ", got=list(got.dims), expected=list(exp_dims))
    gv = np.asarray(got.values)
    if gv.shape != exp.shape:
        raise Violation(f"{what}: shape differs", got=list(gv.shape), expected=list(exp.shape))
    if not np.array_equal(gv, exp):
        bad = np.argwhere(gv != exp)
        i = tuple(int(x) for x in bad[0])
        raise Violation(f"{what}: values differ", index=list(i), got=float(gv[i]), expected=float(exp[i]), n_bad=int(len(bad)))
