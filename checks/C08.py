"""C08 - linear and log transforms are exact piecewise-linear interpolation per column.

Oracle: own interpolant on the sorted profile (exact rational arithmetic for 'linear',
float logs for 'log'), column independence, naming rules."""
import numpy as np
from hypothesis import strategies as st

from vfw import gen
from vfw.core import Violation, must_return
from vfw.model import transform as TM

PROPERTY = "C08"
SIZES = {"quick": 8000, "thorough": 120000}
RULE = (
    "Hypothesis draws column length 2-7, 0-2 leading dims, one strictly monotonic finite target_data profile per column with a "
    "drawn direction per column (mixed directions in one call) or a shared / lower-dimensional profile, 0-6 target levels in "
    "drawn order taken from inside the range, exactly the end values, exactly interior knots and outside on either side, "
    "mask_edges, bypass_checks (only with increasing profiles), method linear/log, level = kernel (interp_1d_linear) or api "
    "(Grid.transform with target as ndarray / 1-D DataArray / N-D DataArray + target_dim, target_data named / anonymous / omitted, "
    "suffix, dask chunking of leading dims). Oracle: own piecewise-linear interpolant, single-column recomputation, naming rules. "
    "Non-trivial = a decreasing profile or unsorted levels or a level outside / exactly at a range end; distinct = canonical JSON."
)
ASSUMPTIONS = [
    "numba stand-in (/verif/stubs/numba) executes the unmodified kernel source per column",
    "stated tolerance: 1e-14 (linear; exact rational reference) or 1e-12 (log; float reference in np.log values) times "
    "(steepest slope * max|target_data| + max|data|), the forward error bound of slope*(x-x0)+y0 in floating point",
    "an empty set of target levels is combined with in-memory inputs only (dask cannot size a zero-length output dimension)",
    "target_data is float64, int64 or (linear method only) float32 with values those types represent exactly; levels are float64",
]
pos_vals = st.integers(1, 64).map(lambda k: k / 4.0)


@st.composite
def profile(draw, L, log, direction, dtype="float64"):
    """strictly monotonic profile whose values the given dtype represents exactly"""
    base = st.integers(-40, 40).map(lambda k: k / 4.0) if not log else pos_vals
    if dtype == "int64":
        els = st.integers(1 if log else -40, 60).map(float)
    elif dtype == "float32":
        els = base
    else:
        els = st.one_of(base, base, st.floats(0.5 if log else -10.0, 10.0, allow_nan=False, width=64))
    vals = sorted(draw(st.sets(els, min_size=L, max_size=L)))
    return vals if direction else vals[::-1]


@st.composite
def strategy_impl(draw, tier):
    L = draw(st.integers(2, 7))
    lead = draw(st.lists(st.integers(1, 3), min_size=0, max_size=2))
    ncol = int(np.prod(lead, dtype=int)) if lead else 1
    method = draw(st.sampled_from(["linear", "linear", "log"]))
    log = method == "log"
    bypass = draw(st.integers(0, 4)) == 0
    shared = draw(st.booleans()) if lead else False
    nprof = 1 if shared else ncol
    # target_data is usually float64, but integer (pressure levels, indices) and float32 coordinates are just as legal; the
    # target levels stay float64 (fractional levels between integer knots included)
    theta_dtype = draw(st.sampled_from(["float64", "float64", "float64", "float32", "int64"]))
    if log and theta_dtype == "float32":
        # np.log of a float32 array is a float32 logarithm: a level equal to an end value then compares unequal to the
        # (float64) logarithm of itself.  That is the precision of the data type, not something the property addresses.
        theta_dtype = "float64"
    thetas = [draw(profile(L, log, True if bypass else draw(st.booleans()), theta_dtype)) for _ in range(nprof)]
    allv = sorted({x for t in thetas for x in t})
    lo, hi = allv[0], allv[-1]
    span = hi - lo
    cands = st.one_of(
        st.sampled_from(allv),
        st.sampled_from([t[0] for t in thetas] + [t[-1] for t in thetas]),
        st.floats(lo, hi, allow_nan=False, width=64),
        st.sampled_from([lo - 1.0, hi + 1.0, hi + span, lo - 0.25]) if not log else st.sampled_from([lo / 2.0, hi * 2.0, hi + 1.0, lo * 0.75]),
    )
    nlev = draw(st.integers(0, 6))
    per_column_levels = draw(st.booleans()) if lead else False
    nsets = ncol if per_column_levels else 1
    levels = [draw(st.lists(cands, min_size=nlev, max_size=nlev)) for _ in range(nsets)]
    # the transformed data itself is float64 mostly, single precision (the usual model output) now and then: the interpolation
    # knots and levels are properties of target_data / target, whatever the precision of the data
    phi_dtype = draw(st.sampled_from(["float64", "float64", "float64", "float32"]))
    phi = draw(gen.data_values(lead + [L], elements=st.integers(-512, 512).map(lambda k: k / 8.0) if phi_dtype == "float32" else None))
    level = draw(st.sampled_from(["kernel", "api", "api"]))
    # missing values in the data (land points in the middle of a column): the interpolant is undefined on the segments that
    # touch them and unchanged everywhere else
    nan_holes = draw(st.lists(st.integers(0, 10 ** 6), min_size=1, max_size=2)) if draw(st.integers(0, 3)) == 0 else []
    case = {"nan_holes": nan_holes, "L": L, "lead": lead, "method": method, "bypass": bypass, "shared": shared, "thetas": thetas, "levels": levels,
            "per_column_levels": per_column_levels, "phi": phi, "mask_edges": draw(st.booleans()), "level": level, "theta_dtype": theta_dtype,
            "flag_style": draw(st.sampled_from(["python", "python", "numpy", "int"])),   # how mask_edges / bypass_checks are spelled
            "phi_dtype": phi_dtype}
    if level == "api":
        case["api"] = {
            "pos": draw(st.sampled_from(["center", "center", "left", "outer"])),
            "td": draw(st.sampled_from(["named", "named", "anonymous", "omitted"])),
            "td_name": draw(st.sampled_from(["theta", "dens", "T"])),
            "target_kind": draw(st.sampled_from(["ndarray", "dataarray"])),
            "target_dim": draw(st.sampled_from(["lev", "sigma", "z_new"])),
            "suffix": draw(st.sampled_from([None, "_transformed", "_on_theta", ""])),
            "name": draw(st.sampled_from(["q", "salt", None])),
            "chunk": draw(st.booleans()),
            "order": draw(gen.permutations_of([f"e{i}" for i in range(len(lead))] + ["Z"])),
        }
        if case["api"]["td"] == "omitted":
            # the axis coordinate is the profile: one shared profile by construction
            case["shared"] = True
            case["thetas"] = thetas[:1]
        if per_column_levels:
            case["api"]["target_kind"] = "dataarray"
        if nlev == 0:
            # dask's apply_gufunc cannot size a zero-length output dimension (ZeroDivisionError inside dask):
            # the empty level set is exercised eagerly only
            case["api"]["chunk"] = False
    return case


def strategy(tier):
    return strategy_impl(tier)


def phi_of(case):
    """the data, with the drawn missing values put in"""
    a = np.array(case["phi"], dtype=np.float64)
    for h in case.get("nan_holes") or []:
        a.flat[h % a.size] = np.nan
    return a


def reference(case):
    lead = list(case["lead"])
    L = case["L"]
    ncol = int(np.prod(lead, dtype=int)) if lead else 1
    phi = phi_of(case).reshape(ncol, L)
    thetas = case["thetas"] if len(case["thetas"]) == ncol else [case["thetas"][0]] * ncol
    levels = case["levels"] if len(case["levels"]) == ncol else [case["levels"][0]] * ncol
    m = len(levels[0])
    out = np.zeros((ncol, m))
    for c in range(ncol):
        for k, lv in enumerate(levels[c]):
            out[c, k] = TM.linear_interp(thetas[c], phi[c].tolist(), lv, case["mask_edges"], log=case["method"] == "log")
    return out.reshape(tuple(lead) + (m,)), thetas, levels


def error_bound(case, thetas, rel):
    """Forward error bound of slope*(x - x0) + y0 evaluated in floating point: the subtraction x - x0 carries an absolute
    error of about eps*max|x|, amplified by the steepest slope, plus eps*max|y|."""
    L = case["L"]
    ncol = len(thetas)
    phi = np.asarray(case["phi"], dtype=np.float64).reshape(ncol, L)   # (bound from the data without the missing values)
    worst = 0.0
    for c, th in enumerate(thetas):
        x = np.log(np.array(th, dtype=np.float64)) if case["method"] == "log" else np.array(th, dtype=np.float64)
        dx = np.abs(np.diff(x))
        dy = np.abs(np.diff(phi[c]))
        slope = float(np.max(dy / dx)) if len(dx) else 0.0
        worst = max(worst, slope * float(np.abs(x).max()) + float(np.abs(phi[c]).max()))
    return rel * (worst + 1e-300)


def compare(got, exp, what, tol, skip=None):
    if got.shape != exp.shape:
        raise Violation(f"{what}: shape", got=list(got.shape), expected=list(exp.shape))
    if skip is not None and skip.any():
        got = np.where(skip, 0.0, got)
        exp = np.where(skip, 0.0, exp)
    nan_mismatch = np.isnan(got) != np.isnan(exp)
    if nan_mismatch.any():
        i = tuple(int(x) for x in np.argwhere(nan_mismatch)[0])
        raise Violation(f"{what}: masking differs (NaN where a value is due, or the reverse)", index=list(i), got=float(got[i]), expected=float(exp[i]))
    with np.errstate(invalid="ignore"):
        bad = np.abs(got - exp) > tol
    bad &= ~np.isnan(exp)
    if bad.any():
        i = tuple(int(x) for x in np.argwhere(bad)[0])
        raise Violation(f"{what}: value differs from the piecewise-linear interpolant", index=list(i), got=float(got[i]), expected=float(exp[i]))


def check(case, ctx):
    from xgcm.transform import interp_1d_linear

    lead = list(case["lead"])
    L = case["L"]
    exp, thetas, levels = reference(case)
    ncol = len(thetas)
    pdt = np.dtype(case.get("phi_dtype", "float64"))
    tol = error_bound(case, thetas, (1e-14 if case["method"] == "linear" else 1e-12) if pdt == np.float64 else 2e-6)
    phi = phi_of(case).reshape(tuple(lead) + (L,)).astype(pdt)
    # a level that coincides with a knot next to a missing value: the knot's own value and "undefined" are both defensible
    ambiguous = np.zeros(exp.shape, dtype=bool).reshape(ncol, -1)
    if case.get("nan_holes"):
        pc = phi.reshape(ncol, L)
        for c in range(ncol):
            for k, lv in enumerate(levels[c]):
                for j, x in enumerate(thetas[c]):
                    if lv == x and (np.isnan(pc[c, j]) or (j > 0 and np.isnan(pc[c, j - 1])) or (j < L - 1 and np.isnan(pc[c, j + 1]))):
                        ambiguous[c, k] = True
    ambiguous = ambiguous.reshape(exp.shape)
    tdt = case.get("theta_dtype", "float64")
    theta_full = np.array(thetas, dtype=np.float64).reshape(tuple(lead) + (L,)).astype(tdt)
    log = case["method"] == "log"

    if case["level"] == "kernel":
        if case["per_column_levels"]:
            # the kernel takes one 1-D level set: run per column (this *is* column independence)
            for c in range(ncol):
                got = np.asarray(must_return("interp_1d_linear", interp_1d_linear, phi.reshape(ncol, L)[c], theta_full.reshape(ncol, L)[c],
                                             np.array(levels[c], dtype=np.float64), case["mask_edges"], case["bypass"], log))
                compare(got.astype(np.float64), exp.reshape(ncol, -1)[c], "kernel (single column)", tol, ambiguous.reshape(ncol, -1)[c])
        else:
            th_arg = np.array(thetas[0]).astype(tdt) if (case["shared"] and lead) else theta_full
            got = np.asarray(must_return("interp_1d_linear", interp_1d_linear, phi, th_arg, np.array(levels[0], dtype=np.float64),
                                         case["mask_edges"], case["bypass"], log))
            compare(got.astype(np.float64), exp, "kernel (all columns)", tol, ambiguous)
            # column independence: one column at a time gives the same rows
            flat = got.reshape(ncol, -1)
            for c in range(min(ncol, 3)):
                one = np.asarray(interp_1d_linear(phi.reshape(ncol, L)[c], np.array(thetas[c]).astype(tdt), np.array(levels[0], dtype=np.float64),
                                                  case["mask_edges"], case["bypass"], log))
                if not np.array_equal(one, flat[c], equal_nan=True):
                    raise Violation("a column computed alone differs from the same column computed with others", column=c)
    else:
        run_api(case, phi, thetas, levels, exp, tol, ambiguous)

    dec = any(t[0] > t[-1] for t in thetas)
    unsorted_lv = any(list(lv) != sorted(lv) for lv in levels)
    lo_hi = [(min(t), max(t)) for t in thetas]
    edge = any(lv <= lo or lv >= hi for (lo, hi), lvs in zip(lo_hi, levels) for lv in lvs)
    classes = [f"level:{case['level']}", f"theta:{case.get('theta_dtype', 'float64')}", f"data:{pdt.name}", f"method:{case['method']}", f"mask:{case['mask_edges']}", f"bypass:{case['bypass']}",
               f"nlev:{len(levels[0])}", f"ncol:{min(ncol, 4)}"]
    if dec:
        classes.append("decreasing")
    if dec and any(t[0] < t[-1] for t in thetas):
        classes.append("mixed-directions")
    if case["per_column_levels"]:
        classes.append("nd-target")
    if case.get("nan_holes"):
        classes.append("missing-values-in-data")
    if case["level"] == "api":
        a = case["api"]
        classes += [f"td:{a['td']}", f"target:{a['target_kind']}", f"pos:{a['pos']}", "chunked" if a["chunk"] else "eager", f"suffix:{a['suffix']}"]
    return {"nontrivial": bool(dec or unsorted_lv or edge), "classes": classes}


def run_api(case, phi, thetas, levels, exp, tol, ambiguous=None):
    import xarray as xr
    from xgcm import Grid

    a = case["api"]
    lead = list(case["lead"])
    L = case["L"]
    pos = a["pos"]
    n = L - gen.LEN_DELTA[pos]
    if n < 1 or (pos != "center" and n < 1):
        pos, n = "center", L
    positions = ["center"] if pos == "center" else ["center", pos]
    if n < 2 and "inner" in positions:
        positions.remove("inner")
    enames = [f"e{i}" for i in range(len(lead))]
    zdim = gen.dim_name("Z", pos)
    coords = {}
    gc = {"Z": {}}
    for p in positions:
        d = gen.dim_name("Z", p)
        Lp = gen.pos_len(n, p)
        vals = np.arange(Lp) * 1.0
        if d == zdim and a["td"] == "omitted":
            vals = np.array(thetas[0], dtype=np.float64).astype(case.get("theta_dtype", "float64"))
        coords[d] = (d, vals)
        gc["Z"][p] = d
    for name, size in zip(enames, lead):
        coords[name] = (name, np.arange(size) * 1.0)
    ds = xr.Dataset(coords=coords)
    grid = must_return("Grid construction", Grid, ds, coords=gc, periodic=False, autoparse_metadata=False)
    order = [(zdim if d == "Z" else d) for d in a["order"]]
    da = xr.DataArray(phi, dims=enames + [zdim], name=a["name"]).transpose(*order)
    td = None
    if a["td"] != "omitted":
        nm = a["td_name"] if a["td"] == "named" else None
        if case["shared"] or not lead:
            td = xr.DataArray(np.array(thetas[0], dtype=np.float64).astype(case.get("theta_dtype", "float64")), dims=[zdim], name=nm)
        else:
            td = xr.DataArray(np.array(thetas, dtype=np.float64).reshape(tuple(lead) + (L,)).astype(case.get("theta_dtype", "float64")),
                              dims=enames + [zdim], name=nm).transpose(*order)
    if a["chunk"] and lead:
        da = da.chunk({enames[0]: 1})
        if td is not None and enames[0] in td.dims:
            td = td.chunk({enames[0]: 1})
    flag = {"python": bool, "numpy": np.bool_, "int": int}[case.get("flag_style", "python")]
    kw = {"method": case["method"], "mask_edges": flag(case["mask_edges"])}
    if case["bypass"]:
        kw["bypass_checks"] = flag(True)
    if a["suffix"] is not None:
        kw["suffix"] = a["suffix"]
    if td is not None:
        kw["target_data"] = td
    if case["per_column_levels"]:
        target = xr.DataArray(np.array(levels, dtype=np.float64).reshape(tuple(lead) + (len(levels[0]),)), dims=enames + [a["target_dim"]])
        kw["target_dim"] = a["target_dim"]
        newdim = a["target_dim"]
    elif a["target_kind"] == "dataarray":
        target = xr.DataArray(np.array(levels[0], dtype=np.float64), dims=[a["target_dim"]])
        newdim = a["target_dim"]
    else:
        target = np.array(levels[0], dtype=np.float64)
        if a["td"] == "named":
            newdim = a["td_name"]
        elif a["td"] == "anonymous":
            newdim = "TRANSFORMED_DIMENSION"
        else:
            newdim = zdim
    if td is not None and case["method"] == "linear":
        # a call with other target_data of the same name first: nothing of it may survive on the Grid
        kw0 = dict(kw, target_data=(td * 2.0 + 1.5).rename(td.name))
        must_return("Grid.transform with other target_data", grid.transform, da, "Z", target, **kw0)
    got = must_return(f"Grid.transform(method={case['method']!r})", grid.transform, da, "Z", target, **kw)
    if a["chunk"] and lead:
        import dask

        if not dask.is_dask_collection(got.data):
            raise Violation("transform of dask-backed input is not lazy")
        got = got.compute()
    want_dims = enames + [newdim]
    if set(got.dims) != set(want_dims):
        raise Violation("new dimension is not named after the target / target_data", got=list(got.dims), expected=want_dims,
                        target_kind=a["target_kind"], td=a["td"])
    compare(np.asarray(got.transpose(*want_dims).values, dtype=np.float64), exp, "Grid.transform", tol, ambiguous)
    if a["name"] is not None:
        suffix = "_transformed" if a["suffix"] is None else a["suffix"]
        if got.name != a["name"] + suffix:
            raise Violation("result is not named <input name><suffix>", got=got.name, expected=a["name"] + suffix)
